#!/usr/bin/env python3
"""Confirm each seeded change (tests still pass, demo fails with / passes without) in a scratch worktree, then
apply it to /repo, run the property's check and undo it.  Results -> /verif/seeded/<id>/meta.json.
usage: eval_seeded.py [--confirm-only] [--tier quick] [ID ...]   (ID like C03-A)"""
import json, os, shutil, subprocess, sys, time
ROOT = "/verif"
CAND = os.path.join(ROOT, "seeded", "_candidates")
BASE_PASS = 1606

def sh(cmd, cwd=None, env=None, timeout=3600):
    p = subprocess.run(cmd, shell=True, cwd=cwd, env=env, capture_output=True, text=True, timeout=timeout)
    return p.returncode, (p.stdout + p.stderr)

def confirm(pid, letter):
    wt = f"/tmp/seedwt_{pid}_{letter}"
    sh(f"git -C /repo worktree remove --force {wt}")
    rc, out = sh(f"git -C /repo worktree add -q --detach {wt} HEAD")
    if rc:
        return dict(ok=False, why="worktree: " + out[-300:])
    try:
        sh(f"cp /repo/src/pendulum/_pendulum.cpython-312-x86_64-linux-gnu.so {wt}/src/pendulum/")
        patch = os.path.join(CAND, pid, f"{letter}.diff")
        demo = os.path.join(CAND, pid, f"{letter}_demo.py")
        env = dict(os.environ, PYTHONPATH=f"{wt}/src")
        rc0, o0 = sh(f"/venv/bin/python {demo}", cwd=wt, env=env, timeout=600)
        rc, out = sh(f"git apply --3way {patch} || git apply {patch}", cwd=wt)
        if rc:
            return dict(ok=False, why="patch does not apply to the current HEAD: " + out[-300:])
        rct, ot = sh("/venv/bin/python -m pytest -q -p no:cacheprovider --timeout=900 2>&1 | tail -1", cwd=wt, env=env, timeout=1200)
        rc1, o1 = sh(f"/venv/bin/python {demo}", cwd=wt, env=env, timeout=600)
        passed = f"{BASE_PASS} passed" in ot
        ok = passed and rc0 == 0 and rc1 != 0
        return dict(ok=ok, tests=ot.strip()[-120:], demo_without=rc0, demo_with=rc1, demo_output=o1[-400:],
                    why="" if ok else "tests/demo condition not met")
    finally:
        sh(f"git -C /repo worktree remove --force {wt}")

def run_check(pid, letter, tier, cases=None):
    patch = os.path.join(CAND, pid, f"{letter}.diff")
    rc2, st = sh("git -C /repo status --porcelain --untracked-files=no")
    assert not st.strip(), "repo not clean before apply: " + st
    rc, out = sh(f"git -C /repo apply {patch} || git -C /repo apply --3way {patch}")
    if rc:
        sh("git -C /repo reset -q --hard HEAD")
        return dict(applied=False, why=out[-300:])
    try:
        t = time.time()
        cmd = f"./check {pid} --tier {tier} --no-evidence" + (f" --case '{cases}'" if cases else "")
        rc, out = sh(cmd, cwd=ROOT, timeout=5400)
        viol = [l for l in out.splitlines() if l.startswith("VIOLATION") or l.startswith("  case=")]
        return dict(applied=True, exit=rc, wall_s=round(time.time() - t, 1), caught=(rc == 1),
                    lines=[v[:400] for v in viol[:6]], tail=out[-500:] if rc not in (0, 1) else "")
    finally:
        sh("git -C /repo reset -q --hard HEAD")          # (equivalent to `git checkout -- .` after a plain apply; --3way stages)
        rc2, st = sh("git -C /repo status --porcelain --untracked-files=no")
        assert not st.strip(), "repo not clean after undo: " + st

def run_check_scratch(pid, letter, tier):
    """same as run_check but in a scratch worktree selected with VF_SRC, so that /repo itself stays untouched
    (used while other checks are running against /repo)"""
    wt = f"/tmp/seedrun_{pid}_{letter}"
    sh(f"git -C /repo worktree remove --force {wt}")
    sh(f"git -C /repo worktree add -q --detach {wt} HEAD")
    try:
        sh(f"cp /repo/src/pendulum/_pendulum.cpython-312-x86_64-linux-gnu.so {wt}/src/pendulum/")
        patch = os.path.join(CAND, pid, f"{letter}.diff")
        rc, out = sh(f"git apply {patch} || git apply --3way {patch}", cwd=wt)
        if rc:
            return dict(applied=False, why=out[-300:])
        t = time.time()
        rc, out = sh(f"./check {pid} --tier {tier} --no-evidence", cwd=ROOT, env=dict(os.environ, VF_SRC=f"{wt}/src"), timeout=5400)
        viol = [l for l in out.splitlines() if l.startswith("VIOLATION") or l.startswith("  case=")]
        return dict(applied=True, exit=rc, wall_s=round(time.time() - t, 1), caught=(rc == 1), how="scratch worktree via VF_SRC",
                    lines=[v[:400] for v in viol[:6]], tail=out[-500:] if rc not in (0, 1) else "")
    finally:
        sh(f"git -C /repo worktree remove --force {wt}")


def main():
    args = [a for a in sys.argv[1:] if not a.startswith("--")]
    confirm_only = "--confirm-only" in sys.argv
    tier = "quick"
    ids = args or sorted(f"{d}-{l}" for d in os.listdir(CAND) for l in "ABCD" if os.path.exists(os.path.join(CAND, d, f"{l}.diff")))
    for sid in ids:
        pid, letter = sid.split("-")
        dst = os.path.join(ROOT, "seeded", sid)
        meta_p = os.path.join(dst, "meta.json")
        meta = json.load(open(meta_p)) if os.path.exists(meta_p) else {}
        c = confirm(pid, letter)
        print(sid, "confirm:", c.get("ok"), c.get("why", ""), flush=True)
        meta.update(property=pid, id=sid, confirmed=c)
        if c.get("ok"):
            os.makedirs(dst, exist_ok=True)
            shutil.copy(os.path.join(CAND, pid, f"{letter}.diff"), os.path.join(dst, "patch.diff"))
            shutil.copy(os.path.join(CAND, pid, f"{letter}_demo.py"), os.path.join(dst, "demo.py"))
            if not confirm_only:
                r = run_check_scratch(pid, letter, tier) if "--scratch" in sys.argv else run_check(pid, letter, tier)
                print(sid, "check:", r.get("exit"), r.get("caught"), r.get("wall_s"), flush=True)
                meta["check"] = r
            notes = os.path.join(CAND, pid, "notes.md")
            needs = json.load(open(os.path.join(ROOT, "seeded", "needs.json")))
            meta["breaks_property"] = pid
            meta["needs_to_manifest"] = needs.get(sid, "see seeded/_candidates/%s/notes.md" % pid)
            meta["ran"] = [f"git worktree + git apply; pytest (expects {BASE_PASS} passed); demo with/without",
                           f"git -C /repo apply patch.diff; ./check {pid} --tier {tier}; git -C /repo checkout -- ."]
            json.dump(meta, open(meta_p, "w"), indent=1)
        else:
            os.makedirs(os.path.join(ROOT, "seeded", "_rejected"), exist_ok=True)
            json.dump(meta, open(os.path.join(ROOT, "seeded", "_rejected", sid + ".json"), "w"), indent=1)

main()
