#!/usr/bin/env python3
"""Regenerate /verif/MANIFEST.json from the property modules under props/ (run from /verif)."""
import importlib, json, os, sys
ROOT = os.path.dirname(os.path.dirname(os.path.abspath(__file__)))
sys.path.insert(0, ROOT)
props = [json.loads(l) for l in open(os.path.join(ROOT, "properties.jsonl"))]
NA = json.load(open(os.path.join(ROOT, "tools", "not_applicable.json")))
checks, na = [], []
for p in props:
    pid = p["id"]
    path = os.path.join(ROOT, "props", pid.lower() + ".py")
    if pid in NA or not os.path.exists(path):
        na.append(dict(property_id=pid, reason=NA.get(pid, "check not built yet (work in progress)")))
        continue
    src = open(path).read()
    meta = {}
    for key in ("LEVEL_TEXT", "LEVEL_NOTE", "TECHNIQUE", "DESIGN_REF"):
        pass
    mod = importlib.import_module("props." + pid.lower())
    checks.append(dict(
        property_id=pid,
        quick_cmd=f"./check {pid} --tier quick",
        thorough_cmd=f"./check {pid} --tier thorough",
        evidence_file=f"/verif/evidence/{pid}.json",
        replay_cmd_template=f"./check {pid} --replay {{path}}",
        engine="symx",
        level_claimed=dict(
            category="model_checking",
            text=getattr(mod, "LEVEL_TEXT", None) or (
                "Bounded symbolic model checking of the real source: the functions listed in the evidence are executed "
                "by CPython on symbolic integers/digits (re-execution DFS over every feasible path), each path's claims are "
                "discharged by z3 as PC && !claim; unsat on every path = the property holds for every input inside the stated "
                "bounds; sat models are replayed on the unmodified library (C datetime/zoneinfo) before being reported."),
            design_ref=getattr(mod, "DESIGN_REF", "DESIGN.md sections 0.3 (what is decided, bounds) and 5 (" + pid + ")")),
        level_note=getattr(mod, "LEVEL_NOTE", None) or ("; ".join(getattr(mod, "ASSUMPTIONS", [])) +
                    " | outside the claim: " + "; ".join(getattr(mod, "OUTSIDE", []))),
        technique=getattr(mod, "TECHNIQUE", "symbolic execution of the real Python source on linear-form integers + z3 (SMT), "
                          "counterexample replay on the real library"),
    ))
m = dict(
    version=1,
    setup_cmd="sh ./setup.sh",
    hooks=dict(guard="PENDULUM_VERIF", enable="no source hooks are needed: every check re-hosts /repo/src in its own process "
               "(model datetime/zoneinfo swapped in at import time); the guard is unused",
               baseline_off_cmd="cd /repo && /venv/bin/python -m pytest -ra -q -p no:cacheprovider --timeout=900 --continue-on-collection-errors",
               source_commits=[], add_only=True),
    engines=[dict(name="symx", path="/verif/vf", serves_properties=[c["property_id"] for c in checks],
                  kind_free_text="re-execution symbolic execution of the unmodified Python source over SInt/SBool/SFloat proxies; "
                                 "model C datetime/zoneinfo; z3 decides path feasibility and claims; real-library replay")],
    checks=checks,
    notes="see DESIGN.md; known findings in known_findings.json; seeded changes in seeded/",
    not_applicable=na,
)
json.dump(m, open(os.path.join(ROOT, "MANIFEST.json"), "w"), indent=1)
print("checks:", [c["property_id"] for c in checks], "n/a:", [n["property_id"] for n in na])
