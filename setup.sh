#!/bin/sh
# Build the check environment offline: a venv over /venv (the repository's interpreter and
# dependencies) plus z3 from the local wheelhouse.  Idempotent.
set -e
cd "$(dirname "$0")"
if [ ! -x .venv/bin/python ] || ! .venv/bin/python -c "import z3" 2>/dev/null; then
  rm -rf .venv
  /venv/bin/python -m venv .venv
  SP=$(.venv/bin/python -c "import sysconfig; print(sysconfig.get_paths()['purelib'])")
  printf "import site; site.addsitedir('/venv/lib/python3.12/site-packages')\n" > "$SP/_overlay.pth"
  PIP_NO_INDEX=1 .venv/bin/pip install -q --no-index --find-links /opt/veriftools/wheels z3-solver
fi
.venv/bin/python -c "import z3, pytest; print('verif env ok, z3', z3.get_version_string())"
