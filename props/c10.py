"""C10 -- Duration arithmetic agrees with timedelta arithmetic."""
from __future__ import annotations

from vf.symx import AND, OR, NOT, IMPLIES, IFF, ite, PathAbort, SFloat
from .common import native_triple, td_us, mixed_amount, exc_name

ID = "C10"
FUNCTIONS = [
    "pendulum.duration:Duration.__add__", "pendulum.duration:Duration.__sub__", "pendulum.duration:Duration.__neg__",
    "pendulum.duration:Duration.__mul__", "pendulum.duration:Duration.__floordiv__", "pendulum.duration:Duration.__truediv__",
    "pendulum.duration:Duration.__mod__", "pendulum.duration:Duration.__divmod__", "pendulum.duration:Duration._to_microseconds",
    "pendulum.duration:_to_microseconds", "pendulum.duration:_divide_and_round", "pendulum.duration:Duration.__new__",
]
ASSUMPTIONS = [
    "C timedelta replaced by the CPython-3.12 model: its operators are the reference the Duration operators are "
    "compared with (integer microseconds; round-half-even for division by an int)",
    "float operands are exactly representable ratios a/2^k (k fixed per case, a symbolic); as_integer_ratio() is "
    "modelled unreduced, which is sound because _divide_and_round is invariant under a common factor",
    "float steps inside Duration (total_seconds() +- total_seconds(), _total * int) under the interval-error model; "
    "operands and results stay below 2^33 s",
]
OUTSIDE = ["Durations with years/months for the length claims (only component-wise negation/scaling is claimed for them)",
           "float factors that are not of the form a/2^k with the stated k", "magnitudes beyond the stated spans"]
REACH = ["tie in round-half-even division", "negative dividend floor division", "native timedelta on the right",
         "native timedelta on the left"]


def _dur(ctx, p, span, neg, kind="duration"):
    v = mixed_amount(ctx, p, "us", span, neg=neg)
    if kind == "duration":
        return ctx.P.Duration(microseconds=v), v
    return ctx.dt.timedelta(microseconds=v), v


def add_sub(ctx, op, other, negs, span):
    P = ctx.P
    a, va = _dur(ctx, "a", span, negs[0])
    b, vb = _dur(ctx, "b", span, negs[1], other)
    if op == "add":
        r, exp = a + b, va + vb
    elif op == "radd":
        r, exp = b + a, va + vb
        ctx.reach("native timedelta on the left", other == "timedelta")
    elif op == "sub":
        r, exp = a - b, va - vb
    ctx.claim("returns a Duration", type(r) is P.Duration)
    ctx.claim(f"{op}: length of the native operation", td_us(ctx, r) == exp)
    ctx.reach("native timedelta on the right", AND(other == "timedelta", op != "radd"))
    ctx.observe("r", list(native_triple(ctx, r)))


def unary(ctx, op, span):
    P = ctx.P
    neg = ctx.bool("neg")
    years = ctx.int("years", -5, 5)
    months = ctx.int("months", -20, 20)
    v = mixed_amount(ctx, "a", "us", span, neg=neg)
    a = P.Duration(years=years, months=months, microseconds=v)
    if op == "neg":
        r = -a
        ctx.claim("returns a Duration", type(r) is P.Duration)
        ctx.claim("negation acts component-wise on years and months", AND(r.years == -years, r.months == -months))
        ctx.claim("negated length", td_us(ctx, r) == -td_us(ctx, a))
    else:
        r = abs(a)
        ctx.claim("abs: magnitude of the native value", td_us(ctx, r) == abs(td_us(ctx, a)))
    ctx.observe("r", list(native_triple(ctx, r)))


def scale_int(ctx, op, span, neg):
    P = ctx.P
    v = mixed_amount(ctx, "a", "us", span, neg=neg)
    years = ctx.int("years", -3, 3)
    a = P.Duration(microseconds=v, years=years)
    k = ctx.int("k", -6, 6)
    rest = P.Duration(microseconds=v)
    if op == "mul":
        r = a * k
        ctx.claim("integer scaling acts component-wise on years", r.years == years * k)
        ctx.claim("mul: length", td_us(ctx, r) - r.years * 365 * 86400 * 10**6 == v * k)
    elif op == "rmul":
        r = k * a
        ctx.claim("rmul: length", td_us(ctx, r) - r.years * 365 * 86400 * 10**6 == v * k)
    elif op == "floordiv":
        ctx.assume(k != 0)
        r = rest // k
        ctx.claim("floordiv: floor of the quotient", td_us(ctx, r) == v // k)
        ctx.reach("negative dividend floor division", AND(v < 0, v % k != 0))
    else:
        ctx.assume(k != 0)
        r = rest / k
        q, rem = divmod(v, k)
        # round half to even
        twice = 2 * rem
        up = OR(ite(k > 0, twice > k, twice < k), AND(twice == k, q % 2 == 1))
        ctx.claim("truediv: quotient rounded half to even", td_us(ctx, r) == q + ite(up, 1, 0))
        ctx.reach("tie in round-half-even division", twice == k)
    ctx.claim("returns a Duration", type(r) is P.Duration)
    ctx.observe("r", list(native_triple(ctx, r)))


def scale_float(ctx, op, span, neg, kbits):
    P = ctx.P
    v = mixed_amount(ctx, "a", "us", span, neg=neg)
    a = P.Duration(microseconds=v)
    num = ctx.int("num", -6, 6)
    den = 2 ** kbits
    ctx.assume(num != 0)
    f = (SFloat(num, den) if ctx.mode == "sym" else num / den)
    if op == "mul":
        r = a * f
        n_, d_ = v * num, den
    else:
        r = a / f
        n_, d_ = v * den, num
    q, rem = divmod(n_, d_)
    twice = 2 * rem
    up = OR(ite(d_ > 0, twice > d_, twice < d_), AND(twice == d_, q % 2 == 1))
    ctx.claim("returns a Duration", type(r) is P.Duration)
    ctx.claim(f"{op} by float: exact rational result rounded half to even", td_us(ctx, r) == q + ite(up, 1, 0))
    ctx.observe("r", list(native_triple(ctx, r)))


def scale_literal_float(ctx, op, span, neg, factor):
    """factors such as 0.1 or 1.1 are not of the form a/2^k: the float is taken literally (its exact binary value)"""
    from fractions import Fraction
    P = ctx.P
    v = mixed_amount(ctx, "a", "us", span, neg=neg)
    a = P.Duration(microseconds=v)
    fr = Fraction(factor)
    if op == "mul":
        r = a * factor
        n_, d_ = v * fr.numerator, fr.denominator
    else:
        r = a / factor
        n_, d_ = v * fr.denominator, fr.numerator
    q, rem = divmod(n_, d_)
    twice = 2 * rem
    up = OR(twice > d_, AND(twice == d_, q % 2 == 1))
    ctx.claim("returns a Duration", type(r) is P.Duration)
    ctx.claim(f"{op} by {factor}: exact rational result rounded half to even (as timedelta does)", td_us(ctx, r) == q + ite(up, 1, 0))
    ctx.observe("r", list(native_triple(ctx, r)))


def by_duration(ctx, op, other, negs, span):
    P = ctx.P
    a, va = _dur(ctx, "a", span, negs[0])
    # the divisor is forked over a small set so that quotient and remainder stay linear (symbolic / symbolic integer
    # division is non-linear and left z3 undecided); the dividend is fully symbolic
    unit = 250000 if op == "truediv" else 1250003
    vb = ctx.concrete(ctx.int("b_us", 1, 6)) * (-1 if negs[1] else 1) * unit
    b = (ctx.P.Duration if other == "duration" else ctx.dt.timedelta)(microseconds=vb)
    ctx.assume(vb != 0)
    if op == "floordiv":
        r = a // b
        ctx.claim("duration // duration", r == va // vb)
        ctx.observe("r", r)
    elif op == "truediv":
        r = a / b
        if ctx.mode == "sym":
            ctx.claim("duration / duration is the ratio", AND(r.n * vb == va * r.d if isinstance(r, SFloat) else r * vb == va))
        else:
            ctx.claim("duration / duration is the ratio", r == va / vb)
    elif op == "mod":
        r = a % b
        ctx.claim("returns a Duration", type(r) is P.Duration)
        ctx.claim("duration % duration", td_us(ctx, r) == va % vb)
        ctx.observe("r", list(native_triple(ctx, r)))
    else:
        q, r = divmod(a, b)
        ctx.claim("returns a Duration", type(r) is P.Duration)
        ctx.claim("divmod", AND(q == va // vb, td_us(ctx, r) == va % vb))
        ctx.observe("r", [q] + list(native_triple(ctx, r)))


def compare(ctx, span):
    P = ctx.P
    na, nb = ctx.bool("na"), ctx.bool("nb")
    a, va = _dur(ctx, "a", span, na)
    b, vb = _dur(ctx, "b", span, nb)
    t = ctx.dt.timedelta(microseconds=vb)
    ctx.claim("== agrees with timedelta", IFF(a == b, va == vb))
    ctx.claim("< agrees with timedelta", IFF(a < b, va < vb))
    ctx.claim("== native timedelta of the same length", IFF(a == t, va == vb))
    ctx.claim("<= native", IFF(a <= t, va <= vb))
    ctx.observe("c", [ite(a == b, 1, 0), ite(a < b, 1, 0)])


def cases(tier):
    span = 20 if tier == "quick" else 2000
    out = []
    sg2 = [(0, 0), (1, 0), (0, 1), (1, 1)]
    for op in ("add", "radd", "sub"):
        for other in ("duration", "timedelta"):
            for negs in (sg2 if tier != "quick" else [(0, 1), (1, 0)]):
                out.append(dict(name=f"{op} {other} {negs}", fn=add_sub, params=dict(op=op, other=other, negs=negs, span=span),
                                bounds=f"Duration {op} {other}: both operands any microsecond count up to {span} days, signs {negs}"))
    for op in ("neg", "abs"):
        out.append(dict(name=op, fn=unary, params=dict(op=op, span=span), bounds=f"years +-5, months +-20, up to {span} days"))
    for op in ("mul", "rmul", "floordiv", "truediv"):
        for neg in (0, 1):
            out.append(dict(name=f"{op} int neg={neg}", fn=scale_int, params=dict(op=op, span=span, neg=bool(neg)),
                            bounds=f"Duration up to {span} days (sign {neg}) {op} every int in -6..6"))
    for op in ("mul", "truediv"):
        for kb in ((1, 3) if tier == "quick" else (0, 1, 2, 3, 5)):
            out.append(dict(name=f"{op} float /2^{kb}", fn=scale_float, params=dict(op=op, span=span, neg=False, kbits=kb),
                            bounds=f"Duration up to {span} days {op} every float num/2^{kb}, num in -6..6"))
    for op in ("mul", "truediv"):
        for factor in ((0.1, 1.1) if tier == "quick" else (0.1, 0.3, 1.1, 2.7, 0.007)):
            out.append(dict(name=f"{op} float literal {factor}", fn=scale_literal_float, params=dict(op=op, span=span, neg=False, factor=factor),
                            bounds=f"Duration up to {span} days {op} the float {factor!r}"))
    for op in ("floordiv", "truediv", "mod", "divmod"):
        for other in ("duration", "timedelta"):
            for negs in (sg2 if tier != "quick" else [(1, 0), (0, 1)]):
                out.append(dict(name=f"{op} by {other} {negs}", fn=by_duration, params=dict(op=op, other=other, negs=negs, span=span),
                                bounds=f"Duration {op} {other}: dividend any microsecond count up to {span} days, divisor k*1250003 us (k*250000 for /), k in 1..6, signs {negs}"))
    out.append(dict(name="compare", fn=compare, params=dict(span=span), bounds=f"pairs of Durations up to {span} days, either sign"))
    return out
