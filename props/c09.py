"""C09 -- Duration normalisation is consistent with timedelta and with itself."""
from __future__ import annotations

from vf.symx import AND, OR, NOT, IMPLIES, IFF, ite, PathAbort
from .common import native_triple, td_us, mixed_amount

ID = "C09"
FUNCTIONS = [
    "pendulum.duration:Duration.__new__", "pendulum.duration:Duration.hours", "pendulum.duration:Duration.minutes",
    "pendulum.duration:Duration.remaining_seconds", "pendulum.duration:Duration.weeks",
    "pendulum.duration:Duration.remaining_days", "pendulum.duration:Duration.microseconds",
    "pendulum.duration:Duration.total_minutes", "pendulum.duration:Duration.total_hours",
    "pendulum.duration:Duration.total_days", "pendulum.duration:Duration.total_weeks",
    "pendulum.duration:Duration.in_weeks", "pendulum.duration:Duration.in_days", "pendulum.duration:Duration.in_hours",
    "pendulum.duration:Duration.in_minutes", "pendulum.duration:Duration.in_seconds", "pendulum.duration:Duration.invert",
    "pendulum.duration:AbsoluteDuration.__new__", "pendulum:duration",
]
ASSUMPTIONS = [
    "C timedelta replaced by the CPython-3.12 model (integer normalisation; total_seconds() = correctly rounded us/10^6)",
    "float steps (total_seconds() - int, % +-1, * 1e6, round, / 60 ...) under the interval-error float model: every "
    "admissible rounding at once; the whole timedelta value stays below 2^33 s, the window in which the property can hold",
    "arguments are given as signed mixed-radix digits (days/hours/minutes/seconds/us), which covers every integer in range",
]
OUTSIDE = ["|total including years and months| >= 2^33 s (float total_seconds() is no longer microsecond exact)",
           "float arguments"]
REACH = ["negative remainder with sub-second part", "sign-cancelling components", "years and remainder of opposite sign",
         "zero duration"]
US_D = 86400 * 10**6


def _args(ctx, signs, span):
    """nine constructor arguments; signs = (ym, wd, hm, s) -> 1 negative"""
    years = ctx.int("years", 0, 60)
    months = ctx.int("months", 0, 100)
    if signs[0]:
        years, months = -years, -months
    weeks = ctx.int("weeks", 0, 500)
    days = ctx.int("days", 0, 3000)
    if signs[1]:
        weeks, days = -weeks, -days
    hours = mixed_amount(ctx, "hours", "h", span, neg=bool(signs[2]))
    minutes = mixed_amount(ctx, "minutes", "m", span, neg=bool(signs[2]))
    seconds = mixed_amount(ctx, "seconds", "s", span, neg=bool(signs[3]))
    ms_hi = mixed_amount(ctx, "ms", "s", span, neg=bool(signs[3]))
    milliseconds = ms_hi * 1000 + (-1 if signs[3] else 1) * ctx.int("ms_r", 0, 999)
    microseconds = mixed_amount(ctx, "us", "us", span, neg=bool(not signs[3]))   # opposite sign: cancellation
    return dict(years=years, months=months, weeks=weeks, days=days, hours=hours, minutes=minutes,
                seconds=seconds, milliseconds=milliseconds, microseconds=microseconds)


def _rest_us(a):
    return ((((a["weeks"] * 7 + a["days"]) * 24 + a["hours"]) * 60 + a["minutes"]) * 60 + a["seconds"]) * 10**6 \
        + a["milliseconds"] * 1000 + a["microseconds"]


def _comp(d):
    return dict(weeks=d.weeks, days=d.remaining_days, hours=d.hours, minutes=d.minutes,
                seconds=d.remaining_seconds, microseconds=d.microseconds)


def trunc_div(x, k):
    return ite(x >= 0, x // k, -((-x) // k))


def construct(ctx, signs, span, part):
    P = ctx.P
    a = _args(ctx, signs, span)
    R = _rest_us(a)
    total = R + (a["years"] * 365 + a["months"] * 30) * US_D
    d = P.Duration(**a)
    c = _comp(d)
    if part == "value":
        ctx.claim("as a timedelta: years = 365 days, months = 30 days", td_us(ctx, d) == total)
        ctx.claim("years and months as given", AND(d.years == a["years"], d.months == a["months"]))
        neg = R < 0
        s = ite(neg, -1, 1)
        comp_us = ((((c["weeks"] * 7 + c["days"]) * 24 + c["hours"]) * 60 + c["minutes"]) * 60 + c["seconds"]) * 10**6 \
            + c["microseconds"]
        ctx.claim("components sum exactly to the part excluding years and months", comp_us == R)
        ctx.claim("components carry the sign of that part", AND(*[s * v >= 0 for v in c.values()]))
        ctx.claim("canonical ranges", AND(s * c["days"] <= 6, s * c["hours"] <= 23, s * c["minutes"] <= 59,
                                          s * c["seconds"] <= 59, s * c["microseconds"] <= 999999))
        ctx.claim("invert", IFF(d.invert, total < 0))
        ctx.reach("negative remainder with sub-second part", AND(R < 0, R % 10**6 != 0))
        ctx.reach("sign-cancelling components", AND(R == 0, a["seconds"] != 0))
        ctx.reach("years and remainder of opposite sign", AND(a["years"] < 0, R > 0))
        ctx.reach("zero duration", total == 0)
        ctx.observe("d", list(native_triple(ctx, d)) + list(c.values()) + [d.years, d.months])
    elif part == "rebuild":
        e = P.Duration(years=d.years, months=d.months, **c)
        ctx.claim("rebuilding from its own components reproduces it", td_us(ctx, e) == td_us(ctx, d))
        ce = _comp(e)
        ctx.claim("identical components", AND(*[ce[k] == c[k] for k in c], e.years == d.years, e.months == d.months))
        ctx.observe("e", list(native_triple(ctx, e)) + list(ce.values()))
    else:  # totals
        ctx.claim("in_seconds", d.in_seconds() == trunc_div(total, 10**6))
        ctx.claim("in_minutes", d.in_minutes() == trunc_div(total, 60 * 10**6))
        ctx.claim("in_hours", d.in_hours() == trunc_div(total, 3600 * 10**6))
        ctx.claim("in_days", d.in_days() == trunc_div(total, US_D))
        ctx.claim("in_weeks", d.in_weeks() == trunc_div(total, 7 * US_D))
        ts = d.total_seconds()
        ctx.claim("total_seconds sign", IFF(ts < 0, total < 0))
        ctx.observe("t", [d.in_seconds(), d.in_minutes(), d.in_hours(), d.in_days(), d.in_weeks()])


def absolute(ctx, span):
    P = ctx.P
    neg = ctx.bool("neg")
    days = ctx.int("days", 0, 3000)
    seconds = mixed_amount(ctx, "seconds", "s", span, neg=False)
    micro = mixed_amount(ctx, "us", "us", span, neg=False)
    if neg:
        days, seconds, micro = -days, -seconds, -micro
    import sys
    A = sys.modules["pendulum.duration"].AbsoluteDuration
    d = A(days=days, seconds=seconds, microseconds=micro)
    R = (days * 86400 + seconds) * 10**6 + micro
    ctx.claim("native value is the magnitude", td_us(ctx, d) == abs(R))
    ctx.claim("invert keeps the sign", IFF(d.invert, R < 0))
    c = _comp(d)
    comp_us = ((((c["weeks"] * 7 + c["days"]) * 24 + c["hours"]) * 60 + c["minutes"]) * 60 + c["seconds"]) * 10**6 + c["microseconds"]
    ctx.claim("components sum to the magnitude", comp_us == abs(R))
    ctx.observe("d", list(native_triple(ctx, d)) + list(c.values()))


def cases(tier):
    span = 30 if tier == "quick" else 3000
    pats = [(0, 0, 0, 0), (1, 1, 1, 1), (0, 1, 0, 1), (1, 0, 1, 0), (0, 0, 1, 1), (1, 1, 0, 0)]
    if tier != "quick":
        pats = [(a, b, c, d) for a in (0, 1) for b in (0, 1) for c in (0, 1) for d in (0, 1)]
    out = []
    for sg in pats:
        for part in ("value", "rebuild", "totals"):
            out.append(dict(name=f"{part} signs={''.join('-' if x else '+' for x in sg)}", fn=construct,
                            params=dict(signs=sg, span=span, part=part),
                            bounds=f"years 0..60, months 0..100, weeks 0..500, days 0..3000, hours/minutes/seconds/"
                                   f"milliseconds/microseconds each spanning up to {span} days; group signs "
                                   f"(years+months, weeks+days, hours+minutes, seconds+ms; microseconds opposite) = {sg}"))
    out.append(dict(name="AbsoluteDuration", fn=absolute, params=dict(span=span),
                    bounds=f"days +-3000, seconds and microseconds spanning up to {span} days, either sign"))
    return out
