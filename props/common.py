"""Shared harness helpers (polymorphic: symbolic on the models, concrete on the real library)."""
from __future__ import annotations

from vf import cal
from vf.symx import AND, OR, NOT, IMPLIES, IFF, ite, PathAbort, SInt, SBool, SFloat, smin, smax


def native_triple(ctx, td):
    """(days, seconds, microseconds) slots of the *native* timedelta underneath a Duration"""
    T = ctx.dt.timedelta
    return T.days.__get__(td), T.seconds.__get__(td), T.microseconds.__get__(td)


def td_us(ctx, td):
    d, s, u = native_triple(ctx, td)
    return (d * 86400 + s) * 1000000 + u


def tod_us(t):
    return ((t.hour * 60 + t.minute) * 60 + t.second) * 1000000 + t.microsecond


def fields(x):
    return [x.year, x.month, x.day, x.hour, x.minute, x.second, x.microsecond]


def off_seconds(x):
    o = x.utcoffset()
    if o is None:
        return None
    return o.days * 86400 + o.seconds


def wall_us(x):
    """microseconds from the ordinal origin of x's wall clock fields"""
    return (cal.ymd2ord(x.year, x.month, x.day) * 86400 + cal.sod(x.hour, x.minute, x.second)) * 1000000 + x.microsecond


def instant_us(x):
    """UTC instant (microseconds from the ordinal origin) computed from fields and utcoffset()"""
    o = x.utcoffset()
    return wall_us(x) - (o.days * 86400 + o.seconds) * 1000000 - o.microseconds


def exc_name(fn, *a, **k):
    """('ok', result) or ('exc', ExceptionTypeName)"""
    try:
        return "ok", fn(*a, **k)
    except PathAbort:
        raise
    except Exception as ex:      # noqa: BLE001  (engine control flow is BaseException)
        from vf.symx import Unmodelled
        if isinstance(ex, Unmodelled):
            raise
        return "exc", type(ex).__name__


def contract_offset(u, Ts, offs):
    """offset in force at UTC instant u (seconds from the ordinal origin)"""
    off = offs[0]
    for i, T in enumerate(Ts):
        off = ite(u >= T, offs[i + 1], off)
    return off


def contract_fold(u, Ts, offs):
    """fold of the local rendering of instant u: 1 iff inside the second pass of an overlap"""
    f = False
    for i, T in enumerate(Ts):
        nb = (u < Ts[i + 1]) if i + 1 < len(Ts) else True
        f = OR(f, AND(u >= T, nb, offs[i + 1] < offs[i], u - T < offs[i] - offs[i + 1]))
    return f


def mixed_amount(ctx, name, unit, max_days):
    """A signed amount in `unit` ('h','m','s','us') given as mixed-radix digits
    (days, hours, minutes, seconds, microseconds), so that the implementation's divmod-by-60/24/10^6
    carry chains split syntactically instead of producing div/mod atoms.  The sign is a
    Python-level fork (keeps both branches linear)."""
    D = ctx.int(name + "_D", 0, max_days)
    v = D
    if unit in ("h", "m", "s", "us"):
        v = v * 24 + ctx.int(name + "_H", 0, 23)
    if unit in ("m", "s", "us"):
        v = v * 60 + ctx.int(name + "_M", 0, 59)
    if unit in ("s", "us"):
        v = v * 60 + ctx.int(name + "_S", 0, 59)
    if unit == "us":
        v = v * 1000000 + ctx.int(name + "_U", 0, 999999)
    if ctx.bool(name + "_neg"):
        return -v
    return v
