"""Shared harness helpers (polymorphic: symbolic on the models, concrete on the real library)."""
from __future__ import annotations

from vf import cal
from vf.symx import AND, OR, NOT, IMPLIES, IFF, ite, PathAbort, SInt, SBool, SFloat, smin, smax


def native_triple(ctx, td):
    """(days, seconds, microseconds) slots of the *native* timedelta underneath a Duration"""
    T = ctx.dt.timedelta
    return T.days.__get__(td), T.seconds.__get__(td), T.microseconds.__get__(td)


def td_us(ctx, td):
    d, s, u = native_triple(ctx, td)
    return (d * 86400 + s) * 1000000 + u


def tod_us(t):
    return ((t.hour * 60 + t.minute) * 60 + t.second) * 1000000 + t.microsecond


def fields(x):
    return [x.year, x.month, x.day, x.hour, x.minute, x.second, x.microsecond]


def off_seconds(x):
    o = x.utcoffset()
    if o is None:
        return None
    return o.days * 86400 + o.seconds


def wall_us(x):
    """microseconds from the ordinal origin of x's wall clock fields"""
    return (cal.ymd2ord(x.year, x.month, x.day) * 86400 + cal.sod(x.hour, x.minute, x.second)) * 1000000 + x.microsecond


def instant_us(x):
    """UTC instant (microseconds from the ordinal origin) computed from fields and utcoffset()"""
    o = x.utcoffset()
    return wall_us(x) - (o.days * 86400 + o.seconds) * 1000000 - o.microseconds


def exc_name(fn, *a, **k):
    """('ok', result) or ('exc', ExceptionTypeName)"""
    try:
        return "ok", fn(*a, **k)
    except PathAbort:
        raise
    except Exception as ex:      # noqa: BLE001  (engine control flow is BaseException)
        from vf.symx import Unmodelled
        if isinstance(ex, Unmodelled):
            raise
        return "exc", type(ex).__name__


def contract_offset(u, Ts, offs):
    """offset in force at UTC instant u (seconds from the ordinal origin)"""
    off = offs[0]
    for i, T in enumerate(Ts):
        off = ite(u >= T, offs[i + 1], off)
    return off


def contract_fold(u, Ts, offs):
    """fold of the local rendering of instant u: 1 iff inside the second pass of an overlap"""
    f = False
    for i, T in enumerate(Ts):
        nb = (u < Ts[i + 1]) if i + 1 < len(Ts) else True
        f = OR(f, AND(u >= T, nb, offs[i + 1] < offs[i], u - T < offs[i] - offs[i + 1]))
    return f


def mixed_amount(ctx, name, unit, max_days, neg=None):
    """A signed amount in `unit` ('h','m','s','us') given as mixed-radix digits
    (days, hours, minutes, seconds, microseconds), so that the implementation's divmod-by-60/24/10^6
    carry chains split syntactically instead of producing div/mod atoms.  The sign is a
    Python-level fork (keeps both branches linear)."""
    D = ctx.int(name + "_D", 0, max_days)
    v = D
    if unit in ("h", "m", "s", "us"):
        v = v * 24 + ctx.int(name + "_H", 0, 23)
    if unit in ("m", "s", "us"):
        v = v * 60 + ctx.int(name + "_M", 0, 59)
    if unit in ("s", "us"):
        v = v * 60 + ctx.int(name + "_S", 0, 59)
    if unit == "us":
        v = v * 1000000 + ctx.int(name + "_U", 0, 999999)
    if neg is None:
        neg = ctx.bool(name + "_neg")
    if neg:
        return -v
    return v


# ------------------------------------------------------------------------------ zones
def sym_offset(ctx, name):
    """any UTC offset in -86399..86399 s as 3600H+60M+S (independent signed digits: no forks)"""
    H = ctx.int(name + "_H", -23, 23)
    M = ctx.int(name + "_M", -59, 59)
    S = ctx.int(name + "_S", -59, 59)
    return H * 3600 + M * 60 + S


def sym_delta_seconds(ctx, name, max_days):
    """a signed number of seconds within +-max_days as 86400d + 3600h + 60m + s"""
    d = ctx.int(name + "_d", -max_days, max_days)
    h = ctx.int(name + "_h", 0, 23)
    m = ctx.int(name + "_m", 0, 59)
    s = ctx.int(name + "_s", 0, 59)
    return d * 86400 + h * 3600 + m * 60 + s


def make_zone(ctx, key, anchor_ord, ntrans=1, max_days=400, kind="named", shape=None):
    """A zone with `ntrans` transitions placed relative to midnight of ordinal `anchor_ord`.
    Returns (tz, Ts, offs).  Offsets are arbitrary second-granular values; consecutive offsets
    differ (a transition that changes nothing is not a transition)."""
    offs = [sym_offset(ctx, f"{key[-1]}o{i}") for i in range(ntrans + 1)]
    Ts = []
    for i in range(ntrans):
        Ts.append(anchor_ord * 86400 + sym_delta_seconds(ctx, f"{key[-1]}T{i}", max_days))
        ctx.assume(offs[i] != offs[i + 1])
    if shape == "gap":
        ctx.assume(offs[1] > offs[0])
    elif shape == "overlap":
        ctx.assume(offs[1] < offs[0])
    for i in range(1, ntrans):
        ctx.assume(Ts[i] > Ts[i - 1])
    if kind == "native":
        tz = ctx.native_zone(key, Ts, offs)
    else:
        tz = ctx.sym_zone(key, Ts, offs)
    return tz, Ts, offs


def resolve_wall(w, Ts, offs, fold1):
    """Constructive oracle for a naive wall time w (seconds from the ordinal origin) in a zone:
    enumerate the UTC instants whose rendering is w.  Returns (w_out, off_out, nvalid) where
    nvalid in {0 (skipped), 1 (unique), 2 (repeated)}; `fold1` selects the later occurrence /
    the forward move."""
    n = len(offs)
    valid = []
    for i in range(n):
        u = w - offs[i]
        c = True
        if i > 0:
            c = AND(c, u >= Ts[i - 1])
        if i < n - 1:
            c = AND(c, u < Ts[i])
        valid.append(c)
    nvalid = 0
    for c in valid:
        nvalid = nvalid + ite(c, 1, 0)
    # unique / repeated: earliest valid segment (largest offset) for fold=0, latest for fold=1
    first_off = offs[n - 1]
    for i in range(n - 2, -1, -1):
        first_off = ite(valid[i], offs[i], first_off)
    last_off = offs[0]
    for i in range(1, n):
        last_off = ite(valid[i], offs[i], last_off)
    # skipped: the transition k with  w - offs[k] >= T_k  and  w - offs[k+1] < T_k
    gap_lo, gap_hi = offs[0], offs[0]
    for k in range(n - 1):
        ing = AND(w - offs[k] >= Ts[k], w - offs[k + 1] < Ts[k])
        gap_lo = ite(ing, offs[k], gap_lo)
        gap_hi = ite(ing, offs[k + 1], gap_hi)
    none = nvalid == 0
    gap = gap_hi - gap_lo
    w_out = ite(none, ite(fold1, w + gap, w - gap), w)
    off_out = ite(none, ite(fold1, gap_hi, gap_lo), ite(fold1, last_off, first_off))
    return w_out, off_out, nvalid


def render(u, Ts, offs):
    """contract rendering of UTC instant u (seconds): (wall seconds, offset, fold)"""
    off = contract_offset(u, Ts, offs)
    return u + off, off, contract_fold(u, Ts, offs)


def wall_s(x):
    return cal.ymd2ord(x.year, x.month, x.day) * 86400 + cal.sod(x.hour, x.minute, x.second)


def sym_wall(ctx, p, ylo, yhi):
    y = ctx.year(p + "y", ylo, yhi)
    m = ctx.int(p + "mo", 1, 12)
    d = ctx.int(p + "d", 1, 31)
    ctx.assume(d <= cal.days_in_month(y, m))
    h = ctx.int(p + "h", 0, 23)
    mi = ctx.int(p + "mi", 0, 59)
    s = ctx.int(p + "s", 0, 59)
    us = ctx.int(p + "us", 0, 999999)
    return y, m, d, h, mi, s, us


def valid_source(ctx, kind, ylo, yhi, ntrans=1, shape=None, p="x", key="Verif/A", fold_fixed=None):
    """a valid aware (or naive) DateTime and its contract data: (x, tz, Ts, offs, u_seconds, us)"""
    P = ctx.P
    y, m, d, h, mi, s, us = sym_wall(ctx, p, ylo, yhi)
    w = cal.ymd2ord(y, m, d) * 86400 + cal.sod(h, mi, s)
    if kind == "naive":
        return P.DateTime(y, m, d, h, mi, s, us), None, [], [0], w, us
    if kind == "utc":
        return P.DateTime(y, m, d, h, mi, s, us, tzinfo=P.UTC), P.UTC, [], [0], w, us
    if kind == "fixed":
        off = sym_offset(ctx, p + "f")
        tz = ctx.fixed_zone(off, "Verif/F" + p)
        return P.DateTime(y, m, d, h, mi, s, us, tzinfo=tz), tz, [], [off], w - off, us
    tz, Ts, offs = make_zone(ctx, key, cal.ymd2ord(y, m, d), ntrans, shape=shape)
    fold = ctx.int(p + "fold", 0, 1)
    if fold_fixed is not None:
        ctx.assume(fold == fold_fixed)       # case split for parallelism
        fold = fold_fixed
    w_out, off, nvalid = resolve_wall(w, Ts, offs, fold == 1)
    ctx.assume(nvalid >= 1)                   # the wall time exists
    ctx.assume(IMPLIES(nvalid == 1, fold == 0))   # fold is only set inside an overlap
    x = P.DateTime(y, m, d, h, mi, s, us, tzinfo=tz, fold=fold)
    ctx.reach("starts in overlap fold=0", AND(nvalid == 2, fold == 0))
    return x, tz, Ts, offs, w - off, us




class cut:
    """Replace a function of the re-hosted library by a stub for the duration of a path (symbolic
    mode only): a deliberate, recorded cut of a computation the property does not depend on."""

    def __init__(self, ctx, modname, attr, stub):
        self.ctx, self.modname, self.attr, self.stub = ctx, modname, attr, stub

    def __enter__(self):
        if self.ctx.mode != "sym":
            return self
        import sys
        self.mod = sys.modules[self.modname]
        self.orig = getattr(self.mod, self.attr)
        setattr(self.mod, self.attr, self.stub)
        return self

    def __exit__(self, *a):
        if self.ctx.mode == "sym":
            setattr(self.mod, self.attr, self.orig)
        return False


def same_text(ctx, got, exp, label):
    """claim that two strings are equal, comparing symbolic digit positions by value"""
    from vf import shapes
    if ctx.mode != "sym":
        ctx.claim(label, got == exp)
        return
    shape_ok = (len(got) == len(exp)) and all(
        (a == b) or ((a.isdigit() or shapes.is_pua(a)) and (b.isdigit() or shapes.is_pua(b))) for a, b in zip(got, exp))
    ctx.claim(label + " (shape)", shape_ok)
    if shape_ok:
        pairs = [(shapes.digit_value(a), shapes.digit_value(b)) for a, b in zip(got, exp)
                 if shapes.is_pua(a) or shapes.is_pua(b)]
        ctx.claim(label + " (digits)", AND(*[p == q for p, q in pairs]) if pairs else True)


class stub_now:
    """datetime.now() is the environment: in the symbolic run it returns a fixed instant (the real run uses the clock;
    harnesses only use it where the result does not depend on it)"""

    def __init__(self, ctx, *fields):
        self.ctx, self.fields = ctx, fields or (2001, 2, 3, 4, 5, 6, 7)

    def __enter__(self):
        if self.ctx.mode != "sym":
            return self
        D = self.ctx.dt.datetime
        self.orig = D.__dict__["now"]
        f = self.fields

        def now(cls, tz=None):
            return cls(*f, tzinfo=tz) if cls is not D else D.__new__(D, *f, tz)
        D.now = classmethod(now)
        return self

    def __exit__(self, *a):
        if self.ctx.mode == "sym":
            self.ctx.dt.datetime.now = self.orig
        return False
