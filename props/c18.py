"""C18 -- human-readable differences are total, localized and correctly directed."""
from __future__ import annotations

import types

from vf import cal
from vf.symx import AND, OR, NOT, IMPLIES, IFF, ite, PathAbort, Unmodelled
from .common import sym_wall, cut

ID = "C18"
FUNCTIONS = [
    "pendulum.formatting.difference_formatter:DifferenceFormatter.format", "pendulum.helpers:format_diff",
    "pendulum.duration:Duration.in_words", "pendulum.interval:Interval.in_words", "pendulum.locales.locale:Locale.load",
    "pendulum.locales.locale:Locale.get", "pendulum.locales.locale:Locale.translation", "pendulum.locales.locale:Locale.plural",
    "pendulum.datetime:DateTime.diff_for_humans", "pendulum.datetime:DateTime.diff", "pendulum.date:Date.diff_for_humans",
]
ASSUMPTIONS = [
    "the difference handed to the formatter is any object with canonical non-negative components (years 0..10^4, "
    "months 0..11, weeks 0..4, remaining_days 0..6, hours 0..23, minutes 0..59, remaining_seconds 0..59) and an invert "
    "flag -- exactly what DateTime/Date/Time.diff() produce (absolute intervals); each locale's CLDR plural rule and "
    "templates are the repository's own data, executed on the symbolic count",
    "the locale is a configuration dimension iterated over all shipped locales; counts are formatted through the "
    "symbolic-digit string shim",
    "direction (instance earlier/later than the reference) is decided on DateTime pairs in UTC through diff_for_humans(other)",
]
OUTSIDE = ["pendulum.now() as the implicit reference (time travel is unavailable in this sandbox; the is_now flag is "
           "exercised at format_diff level)", "locale-dependent *format tokens* (names of months/days): table data, see C08"]
REACH = ["plural class other than 'one'/'other'", "a few seconds", "year rounded up", "past", "future", "absolute"]
def _shipped_locales():
    import os
    root = os.path.join(os.environ.get("VF_SRC", "/repo/src"), "pendulum", "locales")
    return sorted(d for d in os.listdir(root) if os.path.isdir(os.path.join(root, d)) and not d.startswith("_"))


LOCALES = _shipped_locales()


def _oracle(y, mo, w, d, h, mi, s):
    """documented rounding: (unit, count) of the largest non-zero unit"""
    days = w * 7 + d
    if y > 0:
        return "year", y + (1 if mo > 6 else 0)
    if mo == 11 and days > 15:
        return "year", 1
    if mo > 0:
        return "month", mo + (1 if days >= 27 else 0)
    if w > 0:
        return "week", w + (1 if d > 3 else 0)
    if d > 0:
        return "day", d + (1 if h >= 22 else 0)
    if h > 0:
        return "hour", h
    if mi > 0:
        return "minute", mi
    if 10 < s <= 59:
        return "second", s
    return "few", s


def formatter(ctx, locale, is_now, absolute):
    P = ctx.P
    y = ctx.int("y", 0, 10000); mo = ctx.int("mo", 0, 11); w = ctx.int("w", 0, 4); d = ctx.int("d", 0, 6)
    h = ctx.int("h", 0, 23); mi = ctx.int("mi", 0, 59); s = ctx.int("s", 0, 59)
    inv = bool(ctx.bool("invert"))
    diff = types.SimpleNamespace(years=y, months=mo, weeks=w, remaining_days=d, hours=h, minutes=mi,
                                 remaining_seconds=s, invert=inv)
    try:
        r = P.format_diff(diff, is_now, absolute, locale)
        err = None
    except (PathAbort, Unmodelled):
        raise
    except Exception as ex:      # noqa: BLE001
        r, err = None, ex
    ctx.claim(f"no exception (got {type(err).__name__ if err else ''})", err is None)
    if err is not None:
        ctx.observe("exc", type(err).__name__)
        return
    unit, count = _oracle(y, mo, w, d, h, mi, s)       # forks exactly like the documented rule
    ctx.claim("non-empty", len(r) > 0)
    ctx.claim("every placeholder substituted", "{" not in r and "}" not in r)
    loc = P.locale(locale)
    if unit == "few" and loc.get("custom.units.few_second") is not None:
        time = loc.get("custom.units.few_second")
        if absolute:
            exp = time
        else:
            key = "custom." + (("from_now" if inv else "ago") if is_now else ("after" if inv else "before"))
            exp = loc.get(key).format(time)
        ctx.reach("a few seconds")
    else:
        if unit == "few":
            unit = "second"
        if count == 0:
            count = 1
        pl = loc.plural(count)
        if absolute:
            exp = loc.get(f"translations.units.{unit}.{pl}").format(count)
            ctx.reach("absolute")
        elif is_now:
            exp = loc.get(f"translations.relative.{unit}.{'future' if inv else 'past'}.{pl}").format(count)
        else:
            special = loc.get(f"custom.units_relative.{unit}.{'future' if inv else 'past'}")
            time = (special[pl] if special else loc.get(f"translations.units.{unit}.{pl}")).format(count)
            exp = loc.get("custom." + ("after" if inv else "before")).format(time)
        ctx.reach("plural class other than 'one'/'other'", pl not in ("one", "other"))
        ctx.reach("year rounded up", AND(unit == "year", mo > 6))
    # compare as digit strings: same template, same count
    from vf import shapes
    if ctx.mode == "sym":
        same = (len(r) == len(exp)) and all((a == b) or (shapes.is_pua(a) and shapes.is_pua(b)) for a, b in zip(r, exp))
        ctx.claim("phrase is the locale's own template for (unit, direction, plural class) ...", same)
        if same:
            dr = [shapes.digit_value(a) for a in r if shapes.is_pua(a)]
            de = [shapes.digit_value(a) for a in exp if shapes.is_pua(a)]
            ctx.claim("... filled with the documented count", AND(*[p == q for p, q in zip(dr, de)]))
    else:
        ctx.claim("phrase is the locale's own template filled with the documented count", r == exp)
    ctx.reach("past", not inv and not absolute)
    ctx.reach("future", inv and not absolute)
    ctx.observe("r", r)


def in_words(ctx, locale, unit):
    """each unit is rendered independently of the others: one symbolic unit at a time, plus all of them small"""
    P = ctx.P
    rng = dict(y=(0, 1000), mo=(0, 11), w=(0, 1000), d=(0, 6), h=(0, 23), mi=(0, 59), s=(0, 59), us=(0, 999999))
    v = {k: 0 for k in rng}
    if unit == "all":
        for k in ("y", "mo", "d", "h", "s"):
            v[k] = ctx.int(k, 0, 1)
        v["us"] = ctx.int("us", 0, 1) * 250000
    else:
        v[unit] = ctx.int(unit, *rng[unit])
    y, mo, w, d, h, mi, s, us = (v[k] for k in ("y", "mo", "w", "d", "h", "mi", "s", "us"))
    neg = bool(ctx.bool("neg"))
    sg = -1 if neg else 1
    dur = P.Duration(years=sg * y, months=sg * mo, weeks=sg * w, days=sg * d, hours=sg * h, minutes=sg * mi,
                     seconds=sg * s, microseconds=sg * us)
    try:
        r = dur.in_words(locale=locale)
        err = None
    except (PathAbort, Unmodelled):
        raise
    except Exception as ex:      # noqa: BLE001
        r, err = None, ex
    ctx.claim(f"no exception (got {type(err).__name__ if err else ''})", err is None)
    if err is None:
        ctx.claim("non-empty", len(r) > 0)
        ctx.claim("every placeholder substituted", "{" not in r and "}" not in r)
        # the sub-second rendering goes through a float ("%.2f"): any admissible rounding in the model
        ctx.observe("r", r if unit not in ("us", "all") else "rendered")
    else:
        ctx.observe("exc", type(err).__name__)


def direction(ctx, locale):
    """a.diff_for_humans(b): past marker iff a < b, future marker iff a > b, none if absolute"""
    P = ctx.P
    a = sym_wall(ctx, "a", 2000, 2000)
    b = sym_wall(ctx, "b", 2000, 2000)
    A = P.DateTime(*a[:6], 0, tzinfo=P.UTC)
    B = P.DateTime(*b[:6], 0, tzinfo=P.UTC)
    ua = cal.ymd2ord(a[0], a[1], a[2]) * 86400 + cal.sod(a[3], a[4], a[5])
    ub = cal.ymd2ord(b[0], b[1], b[2]) * 86400 + cal.sod(b[3], b[4], b[5])
    ctx.assume(ua != ub)
    r = A.diff_for_humans(B, locale=locale)
    ra = A.diff_for_humans(B, absolute=True, locale=locale)
    loc = P.locale(locale)
    before, after = loc.get("custom.before").format(""), loc.get("custom.after").format("")
    strip = lambda t: t.strip()
    has_before = strip(before) in r
    has_after = strip(after) in r
    ctx.claim("'before' marker exactly when the instance is earlier than the reference", IFF(ua < ub, has_before))
    ctx.claim("'after' marker exactly when the instance is later", IFF(ua > ub, has_after))
    ctx.claim("no marker when absolute", strip(before) not in ra and strip(after) not in ra)
    ctx.observe("r", [r, ra])


def cases(tier):
    out = []
    for loc in LOCALES:
        for is_now in (True, False):
            for absolute in ((False,) if tier == "quick" and not is_now else (False, True)):
                out.append(dict(name=f"format_diff {loc} now={is_now} abs={absolute}", fn=formatter,
                                params=dict(locale=loc, is_now=is_now, absolute=absolute),
                                bounds="every canonical component tuple (years up to 10^4) x both directions"))
        out.append(dict(name=f"Duration.in_words {loc}", fn=in_words,
                        params_list=[dict(locale=loc, unit=u) for u in ("y", "mo", "w", "d", "h", "mi", "s", "us", "all")],
                        bounds="one unit at a time over its whole range (years/weeks 0..1000), either sign, plus all units in {0,1} together"))
    for loc in (("en", "fr") if tier == "quick" else LOCALES):
        out.append(dict(name=f"direction {loc}", fn=direction, params=dict(locale=loc),
                        bounds="every pair of distinct UTC DateTimes (whole seconds) in year 2000"))
    return out
