"""C16 -- weekday navigation lands on the right day inside the right unit."""
from __future__ import annotations

from vf import cal
from vf.symx import AND, OR, NOT, IMPLIES, IFF, ite, PathAbort
from .common import exc_name, fields, wall_s, off_seconds, valid_source

ID = "C16"
FUNCTIONS = [
    "pendulum.date:Date.next", "pendulum.date:Date.previous", "pendulum.date:Date.first_of", "pendulum.date:Date.last_of",
    "pendulum.date:Date.nth_of", "pendulum.date:Date._first_of_month", "pendulum.date:Date._last_of_month",
    "pendulum.date:Date._nth_of_month", "pendulum.date:Date._first_of_quarter", "pendulum.date:Date._last_of_quarter",
    "pendulum.date:Date._nth_of_quarter", "pendulum.date:Date._first_of_year", "pendulum.date:Date._last_of_year",
    "pendulum.date:Date._nth_of_year",
    "pendulum.datetime:DateTime.next", "pendulum.datetime:DateTime.previous", "pendulum.datetime:DateTime.first_of",
    "pendulum.datetime:DateTime.last_of", "pendulum.datetime:DateTime.nth_of", "pendulum.datetime:DateTime._first_of_month",
    "pendulum.datetime:DateTime._last_of_month", "pendulum.datetime:DateTime._nth_of_month",
    "pendulum.datetime:DateTime._first_of_quarter", "pendulum.datetime:DateTime._last_of_quarter",
    "pendulum.datetime:DateTime._nth_of_quarter", "pendulum.datetime:DateTime._first_of_year",
    "pendulum.datetime:DateTime._last_of_year", "pendulum.datetime:DateTime._nth_of_year", "calendar:monthcalendar",
]
ASSUMPTIONS = [
    "C date/datetime replaced by the CPython-3.12 model; the stdlib calendar.py (monthcalendar) re-executed on it",
    "oracle: ordinal arithmetic (weekday = (ordinal + 6) mod 7; unit = [first ordinal, last ordinal])",
    "n is forked over its stated range (the repository loops over range(n))",
]
OUTSIDE = ["named zones with a transition (days with a skipped midnight): thorough tier only, through C12's day unit",
           "n beyond the stated bound"]
REACH = ["nth does not exist", "unit starts on the requested weekday", "fifth occurrence in a month", "leap February"]


def _mk(ctx, kind, y, m, d):
    P = ctx.P
    if kind == "date":
        return P.Date(y, m, d), None
    h = ctx.int("h", 0, 23); mi = ctx.int("mi", 0, 59); s = ctx.int("s", 0, 59); us = ctx.int("us", 0, 999999)
    tz = P.UTC if kind == "utc" else None
    return P.DateTime(y, m, d, h, mi, s, us, tzinfo=tz), (h, mi, s, us)


def _sym_date(ctx, ylo, yhi, mlo=1, mhi=12):
    y = ctx.year("y", ylo, yhi); m = ctx.int("m", mlo, mhi); d = ctx.int("d", 1, 31)
    ctx.assume(d <= cal.days_in_month(y, m))
    return y, m, d


def _unit_bounds(y, m, unit):
    if unit == "month":
        S = cal.ymd2ord(y, m, 1)
        return S, S + cal.days_in_month(y, m) - 1
    if unit == "quarter":
        q0 = ((m - 1) // 3) * 3 + 1
        S = cal.ymd2ord(y, q0, 1)
        return S, cal.ymd2ord(y, q0 + 2, 1) + cal.days_in_month(y, q0 + 2) - 1
    return cal.ymd2ord(y, 1, 1), cal.ymd2ord(y, 12, 31)


def _check(ctx, r, exp_ord, kind, t, keep_time, tzobj):
    ctx.claim("lands on the expected date", cal.ymd2ord(r.year, r.month, r.day) == exp_ord)
    if kind != "date":
        if keep_time:
            ctx.claim("time kept", AND(r.hour == t[0], r.minute == t[1], r.second == t[2], r.microsecond == t[3]))
        else:
            ctx.claim("at 00:00", AND(r.hour == 0, r.minute == 0, r.second == 0, r.microsecond == 0))
        ctx.claim("timezone kept", r.tzinfo is tzobj)


def nav(ctx, kind, op, ylo, yhi, mlo=1, mhi=12, keep=False):
    P = ctx.P
    y, m, d = _sym_date(ctx, ylo, yhi, mlo, mhi)
    x, t = _mk(ctx, kind, y, m, d)
    o = cal.ymd2ord(y, m, d)
    wd = ctx.concrete(ctx.int("wd", 0, 6))
    kw = dict(keep_time=keep) if kind != "date" else {}
    if op == "next":
        r = x.next(P.WeekDay(wd), **kw)
        exp = o + ((wd - cal.weekday(o) - 1) % 7) + 1
    else:
        r = x.previous(P.WeekDay(wd), **kw)
        exp = o - ((cal.weekday(o) - wd - 1) % 7) - 1
    ctx.claim("type", type(r) is type(x))
    _check(ctx, r, exp, kind, t, keep, x.tzinfo if kind != "date" else None)
    ctx.claim("strictly 1..7 days away", AND(abs(exp - o) >= 1, abs(exp - o) <= 7))
    ctx.observe("r", [r.year, r.month, r.day])


def first_last(ctx, kind, op, unit, ylo, yhi, with_wd=True, week_start=None):
    P = ctx.P
    if week_start is not None:
        P.week_starts_at(P.WeekDay(week_start))       # process-wide week configuration must not matter
        P.week_ends_at(P.WeekDay((week_start + 6) % 7))
    y, m, d = _sym_date(ctx, ylo, yhi)
    x, t = _mk(ctx, kind, y, m, d)
    S, E = _unit_bounds(y, m, unit)
    if with_wd:
        wd = ctx.concrete(ctx.int("wd", 0, 6))
        arg = (P.WeekDay(wd),)
    else:
        wd, arg = None, ()
    if op == "first_of":
        r = x.first_of(unit, *arg)
        exp = S if wd is None else S + ((wd - cal.weekday(S)) % 7)
        ctx.reach("unit starts on the requested weekday", True if wd is None else cal.weekday(S) == wd)
    else:
        r = x.last_of(unit, *arg)
        exp = E if wd is None else E - ((cal.weekday(E) - wd) % 7)
    ctx.claim("type", type(r) is type(x))
    _check(ctx, r, exp, kind, t, False, x.tzinfo if kind != "date" else None)
    ctx.reach("leap February", AND(m == 2, cal.is_leap(y)))
    ctx.observe("r", [r.year, r.month, r.day])


def nth(ctx, kind, unit, nmax, ylo, yhi, nmin=1):
    P = ctx.P
    y, m, d = _sym_date(ctx, ylo, yhi)
    x, t = _mk(ctx, kind, y, m, d)
    S, E = _unit_bounds(y, m, unit)
    wd = ctx.concrete(ctx.int("wd", 0, 6))
    n = ctx.concrete(ctx.int("n", nmin, nmax))
    first = S + ((wd - cal.weekday(S)) % 7)
    exp = first + 7 * (n - 1)
    exists = exp <= E
    st, r = exc_name(lambda: x.nth_of(unit, n, P.WeekDay(wd)))
    ctx.claim("raises PendulumException exactly when the unit holds fewer than n",
              IFF(NOT(exists), AND(st == "exc", r == "PendulumException")) if st == "exc" else exists)
    if st == "ok":
        ctx.claim("type", type(r) is type(x))
        _check(ctx, r, exp, kind, t, False, x.tzinfo if kind != "date" else None)
        ctx.reach("fifth occurrence in a month", AND(unit == "month", n == 5))
        ctx.observe("r", [r.year, r.month, r.day])
    else:
        ctx.reach("nth does not exist")
        ctx.observe("exc", r)


def cases(tier):
    out = []
    win = (1998, 2000)
    kinds = ("date", "utc") if tier == "quick" else ("date", "utc", "naive")
    for kind in kinds:
        for op in ("next", "previous"):
            # day-step loops: the quick tier takes one leap and one common year as concrete years (all their days)
            for w in (((1999, 1999), (2000, 2000)) if tier == "quick" else (win,)):
              for mlo, mhi in ((1, 4), (5, 8), (9, 12)):
                for keep in ((False, True) if kind != "date" else (False,)):
                  if tier == "quick" and keep and w[0] == 1999:
                      continue
                  out.append(dict(name=f"{kind} {op} {w[0]}..{w[1]} months {mlo}-{mhi}" + (" keep_time" if keep else ""), fn=nav,
                                  params=dict(kind=kind, op=op, ylo=w[0], yhi=w[1], mlo=mlo, mhi=mhi, keep=keep),
                                  bounds=f"every {kind} value in years {w[0]}..{w[1]}, months {mlo}..{mhi} x 7 weekdays, keep_time={keep}"))
        for op in ("first_of", "last_of"):
            for unit in ("month", "quarter", "year"):
                out.append(dict(name=f"{kind} {op} {unit}", fn=first_last, params=dict(kind=kind, op=op, unit=unit, ylo=win[0], yhi=win[1]),
                                bounds=f"every {kind} value in years {win[0]}..{win[1]} x 7 weekdays"))
            if kind == "date":
                out.append(dict(name=f"{kind} {op} month with week starting on Sunday", fn=first_last,
                                params=dict(kind=kind, op=op, unit="month", ylo=win[0], yhi=win[1], week_start=6),
                                bounds=f"every {kind} value in years {win[0]}..{win[1]} x 7 weekdays, after week_starts_at(SUNDAY)"))
            out.append(dict(name=f"{kind} {op} month (no weekday)", fn=first_last,
                            params=dict(kind=kind, op=op, unit="month", ylo=win[0], yhi=win[1], with_wd=False),
                            bounds=f"every {kind} value in years {win[0]}..{win[1]}, weekday omitted"))
        for unit, nq, nt in (("month", 5, 6), ("quarter", 3, 15), ("year", 3, 54)):
            nmax = nq if tier == "quick" else nt
            for w in ((((1999, 1999), (2000, 2000)) if kind == "date" else ((2000, 2000),)) if tier == "quick" else (win,)):
                out.append(dict(name=f"{kind} nth_of {unit} {w[0]}..{w[1]}", fn=nth, params=dict(kind=kind, unit=unit, nmax=nmax, ylo=w[0], yhi=w[1]),
                                bounds=f"every {kind} value in years {w[0]}..{w[1]} x 7 weekdays x n in 1..{nmax}"))
    # the 52nd/53rd/54th occurrence in a year (the upper end of n), one concrete leap and one common year
    for yy in (1999, 2000):
        out.append(dict(name=f"date nth_of year n=52..54 {yy}", fn=nth, params=dict(kind="date", unit="year", nmax=54, nmin=52, ylo=yy, yhi=yy),
                        bounds=f"every Date in {yy} x 7 weekdays x n in 52..54"))
    return out
