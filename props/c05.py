"""C05 -- an interval's length is the exact elapsed time between its endpoints."""
from __future__ import annotations

from vf import cal
from vf.symx import AND, OR, NOT, IMPLIES, IFF, ite, PathAbort
from .common import (sym_wall, make_zone, resolve_wall, render, wall_s, off_seconds, exc_name, fields,
                     sym_offset, valid_source, native_triple, td_us, cut)

ID = "C05"
FUNCTIONS = [
    "pendulum.interval:Interval.__new__", "pendulum.interval:Interval.__init__", "pendulum.interval:Interval.__abs__",
    "pendulum.interval:Interval.__neg__", "pendulum.interval:Interval.in_days",
    "pendulum.duration:Duration.__new__", "pendulum.duration:Duration.in_seconds", "pendulum.duration:Duration.in_minutes",
    "pendulum.duration:Duration.in_hours", "pendulum.duration:Duration.total_minutes", "pendulum.duration:Duration.total_hours",
    "pendulum.datetime:DateTime.__sub__", "pendulum.datetime:DateTime.__rsub__", "pendulum.datetime:DateTime.diff",
    "pendulum.date:Date.__sub__", "pendulum.date:Date.diff", "pendulum._helpers:precise_diff", "pendulum:interval",
]
ASSUMPTIONS = [
    "zoneinfo.ZoneInfo replaced by its PEP 495 contract (one symbolic transition per zone)",
    "C datetime/timedelta replaced by the CPython-3.12 model; Interval.__new__'s float pipeline (total_seconds(), "
    "Duration(seconds=float), timedelta(float)) under the interval-error float model",
    "both endpoints lie in the stated year window, so |span| < 2^33 s: the exact-to-the-microsecond half of the property",
    "CUT: precise_diff called from Interval.__init__ is stubbed in the symbolic run (it computes the year/month/day "
    "breakdown, which is C06's subject and does not feed the length); the real-mode cross-run executes it",
]
OUTSIDE = ["spans beyond 2^33 s (the 'within 64 microseconds' half of the statement)", "years outside the window",
           "zones with several transitions between the endpoints"]
REACH = ["endpoints straddle the transition", "end in overlap second pass", "start in overlap first pass",
         "negative span", "sub-second span"]


def trunc_div(x, k):
    return ite(x >= 0, x // k, -((-x) // k))


def _length_claims(ctx, r, delta, label):
    d, s, u = native_triple(ctx, r)
    ctx.claim(f"{label}: native length is the elapsed time", (d * 86400 + s) * 1000000 + u == delta)
    ctx.claim(f"{label}: in_seconds truncates toward zero", r.in_seconds() == trunc_div(delta, 10**6))
    ctx.claim(f"{label}: in_minutes truncates toward zero", r.in_minutes() == trunc_div(delta, 60 * 10**6))
    ctx.claim(f"{label}: in_hours truncates toward zero", r.in_hours() == trunc_div(delta, 3600 * 10**6))


def _no_breakdown(d1, d2):
    """stub for precise_diff inside Interval.__init__ (the component breakdown is C06's subject)"""
    import sys
    return sys.modules["pendulum._helpers"].PreciseDiff(0, 0, 0, 0, 0, 0, 0, 0)


def pair(ctx, akind, bkind, how, ylo, yhi, same=False):
    with cut(ctx, "pendulum.interval", "precise_diff", _no_breakdown):
        return _pair(ctx, akind, bkind, how, ylo, yhi, same)


def _pair(ctx, akind, bkind, how, ylo, yhi, same=False):
    P = ctx.P
    a, tzA, TsA, offsA, ua, usa = valid_source(ctx, akind, ylo, yhi, p="a", key="Verif/A")
    if same:
        # second endpoint in the *same* zone object
        y, m, d, h, mi, s, us = sym_wall(ctx, "b", ylo, yhi)
        w = cal.ymd2ord(y, m, d) * 86400 + cal.sod(h, mi, s)
        fold = ctx.int("bfold", 0, 1)
        w_out, off, nvalid = resolve_wall(w, TsA, offsA, fold == 1)
        ctx.assume(nvalid >= 1)
        ctx.assume(IMPLIES(nvalid == 1, fold == 0))
        b = P.DateTime(y, m, d, h, mi, s, us, tzinfo=tzA, fold=fold)
        ub, usb, TsB = w - off, us, TsA
        ctx.reach("end in overlap second pass", AND(nvalid == 2, fold == 1))
    else:
        b, tzB, TsB, offsB, ub, usb = valid_source(ctx, bkind, ylo, yhi, p="b", key="Verif/B")
    delta = (ub - ua) * 1000000 + usb - usa
    if how == "sub":
        r = b - a
    elif how == "diff":
        r = a.diff(b, False)
    elif how == "interval":
        r = P.interval(a, b)
    elif how == "rsub_native":
        nb = ctx.dt.datetime(b.year, b.month, b.day, b.hour, b.minute, b.second, b.microsecond,
                             tzinfo=b.tzinfo, fold=b.fold)
        r = nb - a                                    # DateTime.__rsub__
        nref = td_us(ctx, nb - ctx.dt.datetime(a.year, a.month, a.day, a.hour, a.minute, a.second,
                                               a.microsecond, tzinfo=a.tzinfo, fold=a.fold))
        # two natives sharing one tzinfo are subtracted on their wall clocks by the standard library; where that is not
        # the elapsed time (a transition in between) the statement's two clauses conflict and the elapsed time is claimed
        ctx.claim("same length as the native subtraction (wherever that is the elapsed time)",
                  IMPLIES(nref == delta, td_us(ctx, r) == nref))
    elif how == "sub_native":
        na = ctx.dt.datetime(a.year, a.month, a.day, a.hour, a.minute, a.second, a.microsecond,
                             tzinfo=a.tzinfo, fold=a.fold)
        r = b - na
    elif how == "swapped":
        r = a - b
        delta = -delta
    elif how == "abs":
        r = abs(b - a)
        delta = abs(delta)
    elif how == "absolute":
        r = a.diff(b)                                 # default abs=True
        delta = abs(delta)
    ctx.claim("is Interval", isinstance(r, P.Interval))
    _length_claims(ctx, r, delta, how)
    if TsA and akind == "zone":
        ctx.reach("endpoints straddle the transition", OR(AND(ua < TsA[0], ub >= TsA[0]), AND(ub < TsA[0], ua >= TsA[0])))
        ctx.reach("start in overlap first pass", AND(a.fold == 0, resolve_wall(wall_s(a), TsA, offsA, False)[2] == 2))
    ctx.reach("negative span", delta < 0)
    ctx.reach("sub-second span", AND(delta > -1000000, delta < 1000000, delta != 0))
    ctx.observe("r", list(native_triple(ctx, r)) + [r.in_seconds(), r.in_hours()])


def dates(ctx, how, ylo, yhi):
    with cut(ctx, "pendulum.interval", "precise_diff", _no_breakdown):
        return _dates(ctx, how, ylo, yhi)


def _dates(ctx, how, ylo, yhi):
    P = ctx.P
    y1 = ctx.year("ay", ylo, yhi); m1 = ctx.int("am", 1, 12); d1 = ctx.int("ad", 1, 31)
    y2 = ctx.year("by", ylo, yhi); m2 = ctx.int("bm", 1, 12); d2 = ctx.int("bd", 1, 31)
    ctx.assume(AND(d1 <= cal.days_in_month(y1, m1), d2 <= cal.days_in_month(y2, m2)))
    a, b = P.Date(y1, m1, d1), P.Date(y2, m2, d2)
    delta = (cal.ymd2ord(y2, m2, d2) - cal.ymd2ord(y1, m1, d1)) * 86400 * 10**6
    if how == "sub":
        r = b - a
    elif how == "diff":
        r = a.diff(b, False)
    else:
        r = a.diff(b)
        delta = abs(delta)
    ctx.claim("is Interval", isinstance(r, P.Interval))
    _length_claims(ctx, r, delta, how)
    ctx.observe("r", list(native_triple(ctx, r)))


def cases(tier):
    out = []
    win = (1998, 2000) if tier == "quick" else (1801, 2000)
    zw = (2000, 2000) if tier == "quick" else (1998, 2000)
    def add(name, **params):
        w = (params["ylo"], params["yhi"])
        out.append(dict(name=name, fn=pair, params=params,
                        bounds=f"every ordered/unordered pair of valid DateTimes (both folds) in years {w[0]}..{w[1]}: "
                               f"{params['akind']} x {'same zone object' if params.get('same') else params['bkind']}, via {params['how']}"))
    for how in (("sub", "diff", "swapped", "absolute") if tier == "quick" else
                ("sub", "diff", "interval", "swapped", "abs", "absolute", "rsub_native", "sub_native")):
        add(f"same zone object {how}", akind="zone", bkind="zone", how=how, ylo=zw[0], yhi=zw[1], same=True)
    for how in (("sub",) if tier == "quick" else ("sub", "swapped", "absolute", "rsub_native")):
        add(f"two zones {how}", akind="zone", bkind="zone", how=how, ylo=zw[0], yhi=zw[1])
    for ak, bk in (("zone", "utc"), ("utc", "fixed"), ("fixed", "fixed"), ("naive", "naive"), ("utc", "utc")):
        for how in (("sub", "absolute") if tier == "quick" else ("sub", "diff", "swapped", "abs", "absolute", "rsub_native", "sub_native")):
            if ak == "naive" and "native" in how:
                continue
            w = zw if ak == "zone" else win
            add(f"{ak}/{bk} {how}", akind=ak, bkind=bk, how=how, ylo=w[0], yhi=w[1])
    # far from 1970 (float timestamps would lose the microseconds there)
    add("same zone object sub far from the epoch", akind="zone", bkind="zone", how="sub", ylo=1804, yhi=1804, same=True)
    add("utc/utc sub far from the epoch", akind="utc", bkind="utc", how="sub", ylo=9601, yhi=9603)
    if tier == "quick":
        add("utc/utc rsub_native", akind="utc", bkind="utc", how="rsub_native", ylo=win[0], yhi=win[1])
        add("zone/utc sub_native", akind="zone", bkind="utc", how="sub_native", ylo=zw[0], yhi=zw[1])
    for how in ("sub", "diff", "absolute"):
        out.append(dict(name=f"dates {how}", fn=dates, params=dict(how=how, ylo=win[0], yhi=win[1]),
                        bounds=f"every pair of Dates in years {win[0]}..{win[1]}"))
    return out
