"""C14 -- pickle, copy and deepcopy reproduce every pendulum value exactly."""
from __future__ import annotations

from vf import cal
from vf.symx import AND, OR, NOT, IMPLIES, IFF, ite, PathAbort
from .common import (sym_wall, make_zone, resolve_wall, wall_s, off_seconds, fields, sym_offset, valid_source,
                     native_triple, td_us, mixed_amount, cut)

ID = "C14"
FUNCTIONS = [
    "pendulum.datetime:DateTime._getstate", "pendulum.datetime:DateTime.__reduce__", "pendulum.datetime:DateTime.__reduce_ex__",
    "pendulum.datetime:DateTime.__deepcopy__", "pendulum.datetime:_unpickle",
    "pendulum.duration:Duration.__reduce__", "pendulum.duration:Duration.__deepcopy__", "pendulum.duration:Duration.__new__",
    "pendulum.interval:Interval._getstate", "pendulum.interval:Interval.__reduce_ex__", "pendulum.interval:Interval.__deepcopy__",
    "pendulum.interval:Interval.__new__", "pendulum.interval:Interval.__init__", "pendulum.interval:Interval.__eq__",
    "pendulum.time:Time._get_state", "pendulum.time:Time.__reduce_ex__",
    "pendulum.tz.timezone:FixedTimezone.__getinitargs__", "pendulum.tz.timezone:FixedTimezone.__init__",
]
ASSUMPTIONS = [
    "pickle and copy are modelled by their documented protocol: `f, args = obj.__reduce_ex__(p)[:2]; new = f(*args)` "
    "for protocols 0..5 and for copy.copy; `obj.__deepcopy__(memo)` for copy.deepcopy; tzinfo objects inside the "
    "reduction are reconstructed through their own reduction (named zones come back from the zone cache)",
    "the real-mode cross-run uses the genuine pickle/copy modules on every explored path's model",
    "C datetime/timedelta/zoneinfo replaced by their models",
]
OUTSIDE = ["the byte-level pickle format", "values nested in containers"]
REACH = ["ambiguous wall time fold=1", "ambiguous wall time fold=0", "duration with years months and weeks",
         "negative duration", "inverted absolute interval"]
HOWS = ["pickle0", "pickle2", "pickle5", "copy", "deepcopy"]


def _rebuild_tz(ctx, tz):
    if tz is None:
        return None
    r = tz.__reduce__()
    f, args = r[0], r[1]
    new = f(*args)
    if len(r) > 2 and r[2]:
        new.__dict__.update(r[2])
    return new


def roundtrip(ctx, obj, how):
    if ctx.mode == "real":
        import copy
        import pickle
        if how.startswith("pickle"):
            return pickle.loads(pickle.dumps(obj, int(how[6:])))
        return copy.copy(obj) if how == "copy" else copy.deepcopy(obj)
    if how == "deepcopy" and hasattr(obj, "__deepcopy__"):
        return obj.__deepcopy__({})
    # (copy.deepcopy without __deepcopy__ goes through __reduce_ex__(4) and deep-copies the arguments)
    p = int(how[6:]) if how.startswith("pickle") else 4
    red = obj.__reduce_ex__(p)
    f, args = red[0], red[1]
    if how.startswith("pickle") or how == "deepcopy":
        # nested tzinfo objects travel through their own reduction; nested pendulum values likewise
        def conv(a):
            if isinstance(a, ctx.dt.tzinfo):
                return _rebuild_tz(ctx, a)
            if isinstance(a, tuple):
                return tuple(conv(x) for x in a)
            if isinstance(a, (ctx.P.DateTime, ctx.P.Date)) and not isinstance(a, ctx.P.Interval):
                return roundtrip(ctx, a, how)
            return a
        args = conv(args)
    return f(*args)


def datetime_(ctx, kind, how, ylo, yhi):
    P = ctx.P
    x, tz, Ts, offs, u, us = valid_source(ctx, kind, ylo, yhi)
    r = roundtrip(ctx, x, how)
    ctx.claim("same type", type(r) is P.DateTime)
    ctx.claim("same fields", AND(*[a == b for a, b in zip(fields(r), fields(x))]))
    ctx.claim("same fold", r.fold == x.fold)
    if tz is not None:
        ctx.claim("same UTC offset", off_seconds(r) == off_seconds(x))
        ctx.claim("same instant", wall_s(r) - off_seconds(r) == wall_s(x) - off_seconds(x))
        ctx.claim("same zone name", r.timezone_name == x.timezone_name)
    else:
        ctx.claim("still naive", r.tzinfo is None)
    eq = (r == x)
    ctx.claim("== original", eq)
    if Ts:
        amb = resolve_wall(wall_s(x), Ts, offs, False)[2] == 2
        ctx.reach("ambiguous wall time fold=1", AND(amb, x.fold == 1))
        ctx.reach("ambiguous wall time fold=0", AND(amb, x.fold == 0))
    ctx.observe("r", fields(r) + [off_seconds(r), r.fold])


def date_time(ctx, what, how, ylo, yhi):
    P = ctx.P
    if what == "date":
        y = ctx.year("y", ylo, yhi); m = ctx.int("m", 1, 12); d = ctx.int("d", 1, 31)
        ctx.assume(d <= cal.days_in_month(y, m))
        x = P.Date(y, m, d)
        r = roundtrip(ctx, x, how)
        ctx.claim("same type", type(r) is P.Date)
        ctx.claim("same fields", AND(r.year == y, r.month == m, r.day == d))
        ctx.claim("== original", r == x)
        ctx.observe("r", [r.year, r.month, r.day])
    else:
        h = ctx.int("h", 0, 23); mi = ctx.int("mi", 0, 59); s = ctx.int("s", 0, 59); us = ctx.int("us", 0, 999999)
        x = P.Time(h, mi, s, us)
        r = roundtrip(ctx, x, how)
        ctx.claim("same type", type(r) is P.Time)
        ctx.claim("same fields", AND(r.hour == h, r.minute == mi, r.second == s, r.microsecond == us, r.tzinfo is None))
        ctx.claim("== original", r == x)
        ctx.observe("r", [r.hour, r.minute, r.second, r.microsecond])


def duration(ctx, how, neg):
    P = ctx.P
    sg = -1 if neg else 1
    years = sg * ctx.int("years", 0, 20)
    months = sg * ctx.int("months", 0, 30)
    weeks = sg * ctx.int("weeks", 0, 10)
    days = sg * ctx.int("days", 0, 40)
    rest = mixed_amount(ctx, "rest", "us", 3, neg=neg)
    x = P.Duration(years=years, months=months, weeks=weeks, days=days, microseconds=rest)
    r = roundtrip(ctx, x, how)
    ctx.claim("same type", type(r) is P.Duration)
    acc = lambda d: [d.years, d.months, d.weeks, d.remaining_days, d.hours, d.minutes, d.remaining_seconds, d.microseconds]
    ctx.claim("same components and sign", AND(*[a == b for a, b in zip(acc(r), acc(x))]))
    ctx.claim("same length", td_us(ctx, r) == td_us(ctx, x))
    ctx.claim("== original", r == x)
    ctx.reach("duration with years months and weeks", AND(years != 0, months != 0, x.weeks != 0))
    ctx.reach("negative duration", td_us(ctx, x) < 0)
    ctx.observe("r", acc(r) + list(native_triple(ctx, r)))


def _no_breakdown(d1, d2):
    import sys
    return sys.modules["pendulum._helpers"].PreciseDiff(0, 0, 0, 0, 0, 0, 0, 0)


def interval(ctx, how, kind, absolute, ylo, yhi):
    # CUT: the year/month/day breakdown (precise_diff) is C06's subject; endpoints, flag and length are claimed here
    with cut(ctx, "pendulum.interval", "precise_diff", _no_breakdown):
        return _interval(ctx, how, kind, absolute, ylo, yhi)


def _interval(ctx, how, kind, absolute, ylo, yhi):
    P = ctx.P
    a, tzA, TsA, offsA, ua, usa = valid_source(ctx, kind, ylo, yhi, p="a")
    ya, ma, da, ha, mia, sa, usb = sym_wall(ctx, "b", ylo, yhi)
    if kind == "zone":
        # second endpoint in the same zone (valid wall time)
        w = cal.ymd2ord(ya, ma, da) * 86400 + cal.sod(ha, mia, sa)
        fold = ctx.int("bfold", 0, 1)
        _, offb, nv = resolve_wall(w, TsA, offsA, fold == 1)
        ctx.assume(nv >= 1)
        ctx.assume(IMPLIES(nv == 1, fold == 0))
        b = P.DateTime(ya, ma, da, ha, mia, sa, usb, tzinfo=tzA, fold=fold)
    else:
        b = P.DateTime(ya, ma, da, ha, mia, sa, usb, tzinfo=tzA)
    x = P.Interval(a, b, absolute=absolute)
    r = roundtrip(ctx, x, how)
    ctx.claim("same type", type(r) is P.Interval)
    ctx.claim("same endpoints", AND(*[p == q for p, q in zip(fields(r.start) + fields(r.end), fields(x.start) + fields(x.end))]))
    ctx.claim("same endpoint offsets", AND(off_seconds(r.start) == off_seconds(x.start), off_seconds(r.end) == off_seconds(x.end)))
    ctx.claim("same length", td_us(ctx, r) == td_us(ctx, x))
    ctx.claim("same absolute flag and direction", AND(r._absolute == x._absolute, IFF(r.invert, x.invert)))
    ctx.claim("== original", r == x)
    ctx.reach("inverted absolute interval", AND(absolute, x.invert))
    ctx.observe("r", fields(r.start) + fields(r.end) + list(native_triple(ctx, r)))


def timezone_(ctx, how):
    P = ctx.P
    off = sym_offset(ctx, "f")
    tz = ctx.fixed_zone(off, None if ctx.bool("unnamed") else "Verif/F")
    if ctx.mode == "real":
        r = roundtrip(ctx, tz, how)
    else:
        r = _rebuild_tz(ctx, tz)
    ctx.claim("same type", type(r) is type(tz))
    ctx.claim("same offset", r.offset == tz.offset)
    ctx.claim("same name", r.name == tz.name)
    o = r.utcoffset(None)
    ctx.claim("same utcoffset()", o.days * 86400 + o.seconds == off)
    ctx.observe("r", [r.offset, r.name])


def cases(tier):
    win = (1998, 2000)
    zw = (2000, 2000)
    hows = HOWS if tier != "quick" else ["pickle2", "copy", "deepcopy"]
    out = []
    for how in hows:
        for kind in ("zone", "utc", "fixed", "naive"):
            w = zw if kind == "zone" else win
            out.append(dict(name=f"DateTime {kind} {how}", fn=datetime_, params=dict(kind=kind, how=how, ylo=w[0], yhi=w[1]),
                            bounds=f"every valid {kind} DateTime (both folds) in years {w[0]}..{w[1]} through {how}"))
        for what in ("date", "time"):
            out.append(dict(name=f"{what} {how}", fn=date_time, params=dict(what=what, how=how, ylo=1, yhi=9999),
                            bounds=f"every {what} through {how}"))
        for neg in (False, True):
            out.append(dict(name=f"Duration {how} neg={neg}", fn=duration, params=dict(how=how, neg=neg),
                            bounds="years 0..20, months 0..30, weeks 0..10, days 0..40, rest up to 3 days in microseconds, sign " + str(neg)))
        for kind in (("utc", "fixed") if tier == "quick" else ("utc", "fixed", "zone")):
            for absolute in (False, True):
                w = zw if kind == "zone" else win
                out.append(dict(name=f"Interval {kind} abs={absolute} {how}", fn=interval,
                                params=dict(how=how, kind=kind, absolute=absolute, ylo=w[0], yhi=w[1]),
                                bounds=f"every pair of valid {kind} DateTimes in years {w[0]}..{w[1]} (same zone), absolute={absolute}, through {how}"))
        out.append(dict(name=f"FixedTimezone {how}", fn=timezone_, params=dict(how=how),
                        bounds="every fixed offset in +-23:59:59, named or unnamed"))
    return out
