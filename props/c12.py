"""C12 -- start_of/end_of delimit exactly the calendar unit that contains the value."""
from __future__ import annotations

from vf import cal
from vf.symx import AND, OR, NOT, IMPLIES, IFF, ite, PathAbort
from .common import (sym_wall, make_zone, resolve_wall, render, wall_s, off_seconds, exc_name, fields,
                     sym_offset, valid_source)

ID = "C12"
FUNCTIONS = [
    "pendulum.datetime:DateTime.start_of", "pendulum.datetime:DateTime.end_of",
    "pendulum.datetime:DateTime._start_of_second", "pendulum.datetime:DateTime._end_of_second",
    "pendulum.datetime:DateTime._start_of_minute", "pendulum.datetime:DateTime._end_of_minute",
    "pendulum.datetime:DateTime._start_of_hour", "pendulum.datetime:DateTime._end_of_hour",
    "pendulum.datetime:DateTime._start_of_day", "pendulum.datetime:DateTime._end_of_day",
    "pendulum.datetime:DateTime._start_of_week", "pendulum.datetime:DateTime._end_of_week",
    "pendulum.datetime:DateTime._start_of_month", "pendulum.datetime:DateTime._end_of_month",
    "pendulum.datetime:DateTime._start_of_year", "pendulum.datetime:DateTime._end_of_year",
    "pendulum.datetime:DateTime._start_of_decade", "pendulum.datetime:DateTime._end_of_decade",
    "pendulum.datetime:DateTime._start_of_century", "pendulum.datetime:DateTime._end_of_century",
    "pendulum.datetime:DateTime.set", "pendulum.datetime:DateTime.at", "pendulum.datetime:DateTime.previous",
    "pendulum.datetime:DateTime.next", "pendulum.datetime:DateTime.create", "pendulum.tz.timezone:Timezone.convert",
    "pendulum.date:Date.start_of", "pendulum.date:Date.end_of", "pendulum.date:Date._start_of_week",
    "pendulum.date:Date._end_of_week", "pendulum.date:Date._start_of_month", "pendulum.date:Date._end_of_month",
    "pendulum.date:Date._start_of_decade", "pendulum.date:Date._end_of_century", "pendulum.helpers:week_starts_at",
]
ASSUMPTIONS = [
    "zoneinfo.ZoneInfo replaced by its PEP 495 contract (one symbolic transition anywhere, incl. across midnight); "
    "C datetime by the CPython-3.12 model; the value is any valid local time with either fold",
    "units are compared through wall-clock ranges [first second, last second] of the unit that contains the value",
]
OUTSIDE = ["zones with two transitions touching the same unit", "years outside the stated windows",
           "parse() as a construction route (conversion and direct construction are the two routes: fold 0 / 1)"]
REACH = ["unit boundary wall time is skipped", "unit boundary wall time is repeated", "value with fold=0 from a conversion",
         "week crosses a month boundary"]
UNITS = ["second", "minute", "hour", "day", "week", "month", "year", "decade", "century"]


def unit_range(x, unit, ws=0, we=6):
    """(lo, hi): first and last wall-clock second (from the ordinal origin) of x's unit"""
    y, m, d = x.year, x.month, x.day
    o = cal.ymd2ord(y, m, d)
    sod = cal.sod(x.hour, x.minute, x.second) if hasattr(x, "hour") else 0
    if unit == "second":
        w = o * 86400 + sod
        return w, w
    if unit == "minute":
        w = o * 86400 + sod - x.second
        return w, w + 59
    if unit == "hour":
        w = o * 86400 + x.hour * 3600
        return w, w + 3599
    if unit == "day":
        lo_o, hi_o = o, o
    elif unit == "week":
        wd = cal.weekday(o)
        lo_o = o - (wd - ws) % 7
        hi_o = o + (we - wd) % 7
    elif unit == "month":
        lo_o, hi_o = cal.ymd2ord(y, m, 1), cal.ymd2ord(y, m, 1) + cal.days_in_month(y, m) - 1
    else:
        if unit == "year":
            y0, y1 = y, y
        elif unit == "decade":
            y0 = y - y % 10
            y1 = y0 + 9
        else:
            y0 = y - 1 - (y - 1) % 100 + 1
            y1 = y0 + 99
        lo_o, hi_o = cal.ymd2ord(y0, 1, 1), cal.ymd2ord(y1, 12, 31)
    return lo_o * 86400, hi_o * 86400 + 86399


def datetime_unit(ctx, kind, unit, which, ylo, yhi, shape=None, ws=0, we=6):
    P = ctx.P
    x, tz, Ts, offs, u, us = valid_source(ctx, kind, ylo, yhi, shape=shape)
    if unit in ("decade", "century"):
        ctx.assume(AND(x.year >= 101, x.year <= 9899))
    if unit == "week":
        P.week_starts_at(P.WeekDay(ws))
        P.week_ends_at(P.WeekDay(we))
    lo, hi = unit_range(x, unit, ws, we)
    if which == "start":
        r = x.start_of(unit)
        B, bus = lo, 0
    else:
        r = x.end_of(unit)
        B, bus = hi, 999999
    ctx.claim("type", type(r) is P.DateTime)
    ctx.claim("timezone kept", r.tzinfo is tz)
    U = lambda d: (wall_s(d) - (off_seconds(d) or 0)) * 1000000 + d.microsecond
    if Ts:
        # the unit boundary wall time B may itself be skipped or repeated in the zone
        bw1, boff1, nvalid = resolve_wall(B, Ts, offs, True)
        touches = nvalid != 1
        known = ctx.known_region("C12-boundary-in-transition", lambda: touches)
        # recorded behaviour inside the region: the boundary is resolved by the construction rules with x's fold
        bw, boff, _ = resolve_wall(B, Ts, offs, x.fold == 1)
        recorded = AND(wall_s(r) == bw, off_seconds(r) == boff, r.microsecond == bus)
        ctx.reach("unit boundary wall time is skipped", nvalid == 0)
        ctx.reach("unit boundary wall time is repeated", nvalid == 2)
        ctx.reach("value with fold=0 from a conversion", x.fold == 0)
    else:
        known, recorded = False, False
    in_unit = AND(wall_s(r) >= lo, wall_s(r) <= hi)
    if which == "start":
        ordered = U(r) <= U(x)
        nb = U(r) - 1
    else:
        ordered = U(x) <= U(r)
        nb = U(r) + 1
    nboff = None
    if Ts:
        nbw, nboff, _ = render(nb // 1000000, Ts, offs)
    elif tz is not None:
        nbw = nb // 1000000 + offs[0]
    else:
        nbw = nb // 1000000
    outside = (nbw < lo) if which == "start" else (nbw > hi)
    if nboff is not None and unit in ("second", "minute", "hour"):
        # inside a repeated hour the two passes carry the same wall-clock label; they are told apart by
        # their UTC offset (the statement only speaks of days whose midnight is skipped or repeated)
        outside = OR(outside, nboff != off_seconds(r))
    prop = AND(in_unit, ordered, outside)
    ctx.claim(f"{which}_of({unit}): in the unit of x, on the right side of x, neighbouring microsecond outside",
              OR(prop, AND(known, recorded)))
    # idempotent
    r2 = r.start_of(unit) if which == "start" else r.end_of(unit)
    ctx.claim("idempotent", OR(AND(U(r2) == U(r), off_seconds(r2) == off_seconds(r)), known))
    if unit == "week":
        ctx.reach("week crosses a month boundary", (lo // 86400) < cal.ymd2ord(x.year, x.month, 1))
    ctx.observe("r", fields(r) + [off_seconds(r), r.fold])


def date_unit(ctx, unit, which, ws=0, we=6):
    P = ctx.P
    y = ctx.year("y", 101, 9899)
    m = ctx.int("m", 1, 12)
    d = ctx.int("d", 1, 31)
    ctx.assume(d <= cal.days_in_month(y, m))
    x = P.Date(y, m, d)
    if unit == "week":
        P.week_starts_at(P.WeekDay(ws))
        P.week_ends_at(P.WeekDay(we))
    lo, hi = unit_range(x, unit, ws, we)
    r = x.start_of(unit) if which == "start" else x.end_of(unit)
    exp = (lo if which == "start" else hi) // 86400
    ctx.claim("type", type(r) is P.Date)
    ctx.claim(f"{which}_of({unit}) is the first/last day of the unit", cal.ymd2ord(r.year, r.month, r.day) == exp)
    ctx.observe("r", [r.year, r.month, r.day])


WEEKS = [(0, 6), (1, 0), (2, 1), (3, 2), (4, 3), (5, 4), (6, 5)]


def cases(tier):
    out = []
    win = (1998, 2000)
    for unit in UNITS:
        for which in ("start", "end"):
            weeks = WEEKS if (unit == "week" and tier != "quick") else ([(0, 6), (6, 5)] if unit == "week" else [(0, 6)])
            zone_weeks = []                # weeks with a named zone: every day step multiplies the zone branches (> 35 min per case,
                                           # measured); the zone behaviour is decided on the day unit, weeks on utc/fixed/naive
            for ws, we in weeks:
                wk = f" week {ws}-{we}" if unit == "week" else ""
                kinds = ("zone", "utc", "fixed", "naive")
                if tier == "quick":
                    # week = previous()/next() day steps + start_of/end_of("day"): with a zone every step multiplies the
                    # zone branches; the quick tier decides weeks on utc/fixed and the zone behaviour on the day unit
                    kinds = ("utc",) if unit == "week" else ("zone", "utc")
                for kind in kinds:
                    if kind == "zone" and unit == "week" and (ws, we) not in zone_weeks:
                        continue
                    for shape in (("gap", "overlap") if kind == "zone" else (None,)):
                        w = (2000, 2000) if (kind == "zone" or (unit == "week" and tier == "quick")) else win
                        out.append(dict(name=f"{which}_of {unit}{wk} {kind} {shape or ''}", fn=datetime_unit,
                                        params=dict(kind=kind, unit=unit, which=which, ylo=w[0], yhi=w[1], shape=shape, ws=ws, we=we),
                                        bounds=f"every valid {kind} DateTime (both folds) in years {w[0]}..{w[1]}"
                                               + (", one transition anywhere within +-400 days, any offsets" if kind == "zone" else "")))
                if unit not in ("second", "minute", "hour"):
                    out.append(dict(name=f"Date {which}_of {unit}{wk}", fn=date_unit, params=dict(unit=unit, which=which, ws=ws, we=we),
                                    bounds="every Date in years 101..9899"))
    return out
