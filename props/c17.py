"""C17 -- parse() is total: a supported value or a ValueError/ParserError, nothing else (pure-Python parser)."""
from __future__ import annotations

import itertools

from vf.symx import AND, OR, NOT, IMPLIES, IFF, ite, PathAbort, Unmodelled
from .common import stub_now

ID = "C17"
RUST_CROSSCHECK = True
FUNCTIONS = [
    "pendulum.parser:parse", "pendulum.parser:_parse", "pendulum.parsing:parse", "pendulum.parsing:_parse",
    "pendulum.parsing:_normalize", "pendulum.parsing:_parse_common", "pendulum.parsing:_parse_iso8601_interval",
    "pendulum.parsing.iso8601:parse_iso8601", "pendulum.parsing.iso8601:_parse_iso8601_duration",
    "pendulum.parsing.iso8601:_get_iso_8601_week", "pendulum:instance", "pendulum:interval", "pendulum:datetime",
]
ASSUMPTIONS = [
    "inputs are shapes over the class alphabet {D(any digit) : T Z W / P + - . , space Y M H S x(other)}: every shape "
    "up to the stated length is enumerated, the digits of each shape are symbolic (all 10^k assignments decided at once)",
    "every regex of the parser is digit-agnostic (checked at load), so a shape that matches no pattern is decided by "
    "its single concrete path",
    "dateutil (strict=False fallback) is stubbed by its contract: returns a datetime or raises ValueError",
    "PENDULUM_EXTENSIONS=0; the compiled parser is cross-run concretely on every explored path's model",
]
OUTSIDE = ["strings longer than the enumerated length other than the edited valid forms", "non-ASCII text beyond the class 'other'",
           "the Rust text parser (concrete cross-run only); equality of results across backends"]
REACH = ["value returned", "ParserError raised"]
ALPHA = ["D", ":", "T", "Z", "W", "/", "P", "+", "-", ".", ",", " ", "Y", "M", "H", "S", "x"]
BASES = ["DDDD-DD-DD", "DDDD-DD-DDTDD:DD:DD", "20DDDDDDTDDDDDD", "20DD-DDD", "20DD-WDD-D", "DD:DD:DD", "DDDD-DD-DD DD:DD:DD.DDD",
         "DDDD-DD-DDTDD:DD:DD+DD:DD", "DDDD-DD-DDTDD:DDZ", "PDYDMDDTDHDMDS", "PDW", "PTD.DS",
         "2000/DD/DD DD:DD:DD.DDDDDDD", "2000-DD-DDTDD:00Z/PDD", "PDD/2000-DD-DDTDD:00Z", "2000-DD-DDTDD:00Z/2000-DD-DD"]


def total(ctx, shape, opts):
    P = ctx.P
    text = ""
    i = 0
    for ch in shape:
        if ch == "D":
            text += ctx.digits(f"d{i}_", 1)
            i += 1
        else:
            text += ch
    try:
        with stub_now(ctx):              # a time without a date is completed from the clock (environment)
            r = P.parse(text, **opts)
        ok, exc = True, None
    except (PathAbort,):
        raise
    except Unmodelled:
        raise
    except Exception as ex:      # noqa: BLE001
        ok, exc, r = False, ex, None
    if ok:
        ctx.claim("result is a DateTime, Date, Time, Duration or Interval",
                  isinstance(r, (P.DateTime, P.Date, P.Time, P.Duration, P.Interval)))
        ctx.reach("value returned")
        ctx.observe("r", type(r).__name__ if opts.get("strict", True) else "total")
    else:
        ctx.claim(f"exception is a ValueError (got {type(exc).__name__})", isinstance(exc, ValueError))
        ctx.reach("ParserError raised")
        # with strict=False the dateutil fallback is environment (stub: returns a datetime or raises ValueError)
        ctx.observe(*(("exc", "ValueError" if isinstance(exc, ValueError) else type(exc).__name__)
                      if opts.get("strict", True) else ("r", "total")))


def _edits(base):
    out = set()
    for i in range(len(base)):
        out.add(base[:i] + base[i + 1:])
        for a in ALPHA:
            out.add(base[:i] + a + base[i + 1:])
    for i in range(len(base) + 1):
        for a in ALPHA:
            out.add(base[:i] + a + base[i:])
    for i in range(1, len(base)):
        out.add(base[:i])
    out.discard(base)
    return sorted(out)


def cases(tier):
    L = 3 if tier == "quick" else 4
    out = []
    # exhaustive over the class alphabet up to length L, one case per first character class
    for a in ALPHA:
        shapes = [a]
        for n in range(1, L):
            shapes += [a + "".join(t) for t in itertools.product(ALPHA, repeat=n)]
        out.append(dict(name=f"all shapes <= {L} starting with {a!r}", fn=total,
                        params_list=[dict(shape=s, opts={}) for s in shapes],
                        bounds=f"every string of length 1..{L} over the 17-class alphabet starting with {a!r}, every digit assignment",
                        limits=dict(max_paths=10**6)))
    out.append(dict(name="empty and whitespace", fn=total, params_list=[dict(shape=s, opts={}) for s in ("", " ", "  ")],
                    bounds="'', ' ', '  '"))
    shapes3 = [""] + ["".join(t) for n in (1, 2) for t in itertools.product(ALPHA, repeat=n)]
    for nm, opts in (("strict=False", dict(strict=False)), ("exact=True", dict(exact=True)),
                     ("day_first", dict(day_first=True)), ("tz=UTC", dict(tz="UTC"))):
        out.append(dict(name=f"all shapes <= 2, {nm}", fn=total, params_list=[dict(shape=s, opts=opts) for s in shapes3],
                        bounds=f"every string of length 0..2 over the alphabet with options {nm}", limits=dict(max_paths=10**6)))
    bases = BASES if tier != "quick" else BASES
    for b in bases:
        ed = _edits(b)
        if tier != "quick":
            ed2 = set()
            for e in ed[::97]:
                ed2.update(_edits(e))
            ed = sorted(set(ed) | ed2)
        out.append(dict(name=f"edits of {b}", fn=total, params_list=[dict(shape=s, opts={}) for s in [b] + ed],
                        bounds=f"{b!r} and all its single class-level substitutions, deletions, insertions and truncations"
                               + (" plus double edits of every 97th" if tier != "quick" else ""),
                        limits=dict(max_paths=10**6)))
    return out
