"""C19 -- Interval.range() steps from the start without drift and stays inside."""
from __future__ import annotations

from vf import cal
from vf.symx import AND, OR, NOT, IMPLIES, IFF, ite, PathAbort
from .common import fields, wall_s, off_seconds, sym_wall, cut

ID = "C19"
FUNCTIONS = [
    "pendulum.interval:Interval.range", "pendulum.interval:Interval.__iter__", "pendulum.interval:Interval.__contains__",
    "pendulum.interval:Interval.__new__", "pendulum.interval:Interval.__init__", "pendulum.interval:_is_after",
    "pendulum.datetime:DateTime.add", "pendulum.datetime:DateTime.subtract", "pendulum.date:Date.add",
    "pendulum.date:Date.subtract", "pendulum.helpers:add_duration",
]
ASSUMPTIONS = [
    "the generator is unrolled to K yielded values (K stated per case); longer ranges are outside the claim -- the loop "
    "body is identical for every step and each value is computed from the start, so a drift shows at the second step",
    "oracle for the i-th value: start shifted by i*n units by the C04 oracle (month arithmetic with clamping from the "
    "*start*, ordinal arithmetic for weeks/days, exact seconds for time units)",
    "C datetime replaced by the CPython-3.12 model; endpoints are Dates or UTC DateTimes (named zones: thorough tier)",
    "CUT: precise_diff inside Interval.__init__ is stubbed (component breakdown is C06's subject)",
]
OUTSIDE = ["more than K steps", "step sizes above 12", "named zones with transitions inside the interval (quick tier)"]
REACH = ["end is reachable and yielded", "end not reachable", "month step from day 31 clamps", "inverted interval"]
UNITS_DT = ["years", "months", "weeks", "days", "hours", "minutes", "seconds", "microseconds"]
UNITS_D = ["years", "months", "weeks", "days"]
FIXED_US = dict(hours=3600 * 10**6, minutes=60 * 10**6, seconds=10**6, microseconds=1)


def _no_breakdown(d1, d2):
    import sys
    return sys.modules["pendulum._helpers"].PreciseDiff(0, 0, 0, 0, 0, 0, 0, 0)


def _oracle_us(y, m, d, tod_us, unit, k):
    """microseconds (from the ordinal origin) of start shifted by k units"""
    if unit in ("years", "months"):
        y2, m2 = cal.month_add(y + (k if unit == "years" else 0), m, k if unit == "months" else 0)
        o = cal.ymd2ord(y2, m2, cal.clamp_day(y2, m2, d))
        return o * 86400 * 10**6 + tod_us
    if unit in ("weeks", "days"):
        return (cal.ymd2ord(y, m, d) + k * (7 if unit == "weeks" else 1)) * 86400 * 10**6 + tod_us
    return cal.ymd2ord(y, m, d) * 86400 * 10**6 + tod_us + k * FIXED_US[unit]


def _val_us(x, is_date):
    o = cal.ymd2ord(x.year, x.month, x.day) * 86400 * 10**6
    if is_date:
        return o
    return o + (cal.sod(x.hour, x.minute, x.second)) * 10**6 + x.microsecond


def rng(ctx, kind, unit, K, direction, via="range", nmax=12):
    with cut(ctx, "pendulum.interval", "precise_diff", _no_breakdown):
        return _rng(ctx, kind, unit, K, direction, via, nmax)


def _rng(ctx, kind, unit, K, direction, via, nmax=12):
    P = ctx.P
    is_date = kind == "date"
    n = ctx.concrete(ctx.int("n", 1, nmax)) if via == "range" else 1
    y = ctx.year("y", 1998, 2000)
    m = ctx.int("m", 1, 12)
    d = ctx.int("d", 1, 31)
    ctx.assume(d <= cal.days_in_month(y, m))
    if is_date:
        start, tod = P.Date(y, m, d), 0
    else:
        h = ctx.int("h", 0, 23); mi = ctx.int("mi", 0, 59); s = ctx.int("s", 0, 59); us = ctx.int("us", 0, 999999)
        start = P.DateTime(y, m, d, h, mi, s, us, tzinfo=P.UTC)
        tod = cal.sod(h, mi, s) * 10**6 + us
    sgn = 1 if direction != "inverted" else -1
    # the end: anywhere such that at most K values fit
    lo_us = _oracle_us(y, m, d, tod, unit, 0)
    far_us = _oracle_us(y, m, d, tod, unit, sgn * n * K)
    if is_date:
        ey = ctx.year("ey", 1996, 2002); em = ctx.int("em", 1, 12); ed = ctx.int("ed", 1, 31)
        ctx.assume(ed <= cal.days_in_month(ey, em))
        end = P.Date(ey, em, ed)
        end_us = cal.ymd2ord(ey, em, ed) * 86400 * 10**6
    else:
        ey, em, ed, eh, emi, es, eus = sym_wall(ctx, "e", 1996, 2002)
        end = P.DateTime(ey, em, ed, eh, emi, es, eus, tzinfo=P.UTC)
        end_us = (cal.ymd2ord(ey, em, ed) * 86400 + cal.sod(eh, emi, es)) * 10**6 + eus
    if sgn > 0:
        ctx.assume(AND(end_us >= lo_us, end_us < far_us))
    else:
        ctx.assume(AND(end_us <= lo_us, end_us > far_us))
    if direction == "absolute_swapped":
        itv = P.Interval(end, start, absolute=True)        # absolute: iterates from the earlier to the later endpoint
    else:
        itv = P.Interval(start, end)
    gen = itv.range(unit, n) if via == "range" else iter(itv)
    got = []
    for v in gen:
        got.append(v)
        if len(got) > K + 1:
            break
    ctx.claim("finite: at most K values fit before the end", len(got) <= K)
    prev = None
    for i, v in enumerate(got):
        exp = _oracle_us(y, m, d, tod, unit, sgn * n * i)
        vu = _val_us(v, is_date)
        ctx.claim(f"value {i} is the start shifted by {i}*n units (computed from the start)", vu == exp)
        ctx.claim(f"value {i} lies inside the interval", (vu <= end_us) if sgn > 0 else (vu >= end_us))
        inside = (vu <= end_us) if sgn > 0 else (vu >= end_us)
        s_us, e_us = _val_us(itv.start, is_date), _val_us(itv.end, is_date)
        ctx.claim(f"x in interval <=> start <= x <= end (value {i})", IFF(v in itv, AND(s_us <= vu, vu <= e_us)))
        if prev is not None:
            ctx.claim(f"strictly monotone at {i}", (vu > prev) if sgn > 0 else (vu < prev))
        prev = vu
    nxt = _oracle_us(y, m, d, tod, unit, sgn * n * len(got))
    ctx.claim("stops at the last value not beyond the end", (nxt > end_us) if sgn > 0 else (nxt < end_us))
    if got:
        last = _val_us(got[-1], is_date)
        ctx.reach("end is reachable and yielded", last == end_us)
        ctx.reach("end not reachable", last != end_us)
    ctx.reach("month step from day 31 clamps", AND(unit == "months", d == 31, len(got) >= 2))
    ctx.reach("inverted interval", sgn < 0)
    ctx.observe("vals", [fields(v) if not is_date else [v.year, v.month, v.day] for v in got])


def zone_iter(ctx, shape):
    """direct iteration (days) over DateTimes in a zone with a transition near the interval"""
    with cut(ctx, "pendulum.interval", "precise_diff", _no_breakdown):
        from props.common import make_zone, resolve_wall, wall_s, off_seconds
        P = ctx.P
        y, m, d, h, mi, s, us = sym_wall(ctx, "a", 2000, 2000)
        ctx.assume(AND(s == 0, us == 0))
        tz, Ts, offs = make_zone(ctx, "Verif/A", cal.ymd2ord(y, m, d), max_days=3, shape=shape)
        w = cal.ymd2ord(y, m, d) * 86400 + cal.sod(h, mi, 0)
        _, offa, nva = resolve_wall(w, Ts, offs, False)
        ctx.assume(nva == 1)
        start = P.DateTime(y, m, d, h, mi, 0, 0, tzinfo=tz)
        # the end: 2 days later on the wall clock plus/minus up to a day (so that 2 or 3 values fit)
        extra = ctx.int("extra_h", -23, 23)
        we = w + 2 * 86400 + extra * 3600
        _, offe, nve = resolve_wall(we, Ts, offs, False)
        ctx.assume(nve == 1)
        eo, es = divmod(we, 86400)
        ey, em, ed = cal.ord2ymd(eo)
        end = P.DateTime(ey, em, ed, es // 3600, es % 3600 // 60, 0, 0, tzinfo=tz)
        itv = P.Interval(start, end)
        got = []
        for v in itv:
            got.append(v)
            if len(got) > 4:
                break
        ctx.claim("finite", len(got) <= 4)
        u_end = we - offe
        for i, v in enumerate(got):
            wi, offi, nvi = resolve_wall(w + i * 86400, Ts, offs, True)      # start.add(days=i): wall clock + construction rules
            ctx.claim(f"value {i} is start.add(days={i})", AND(wall_s(v) == wi, off_seconds(v) == offi))
            ctx.claim(f"value {i} not beyond the end", wall_s(v) - off_seconds(v) <= u_end)
        nw, noff, _ = resolve_wall(w + len(got) * 86400, Ts, offs, True)
        ctx.claim("stops only when the next value lies beyond the end", nw - noff > u_end)
        ctx.observe("n", len(got))


def contains(ctx, kind):
    with cut(ctx, "pendulum.interval", "precise_diff", _no_breakdown):
        P = ctx.P
        mk = (lambda p: sym_wall(ctx, p, 1998, 2000))
        a, b, x = mk("a"), mk("b"), mk("x")
        A, B, X = [P.DateTime(*t, tzinfo=P.UTC) for t in (a, b, x)]
        us = lambda t: (cal.ymd2ord(t[0], t[1], t[2]) * 86400 + cal.sod(t[3], t[4], t[5])) * 10**6 + t[6]
        itv = P.Interval(A, B)
        r = X in itv
        ctx.claim("x in interval <=> start <= x <= end", IFF(r, AND(us(a) <= us(x), us(x) <= us(b))))
        ctx.observe("r", ite(r, 1, 0))


def cases(tier):
    K = 3 if tier == "quick" else 6
    nmax = 3 if tier == "quick" else 6
    out = []
    for kind, units in (("date", UNITS_D), ("utc", UNITS_DT)):
        for unit in units:
            for direction in ("forward", "inverted") + (("absolute_swapped",) if unit in ("months", "days") or tier != "quick" else ()):
                out.append(dict(name=f"{kind} range {unit} {direction}", fn=rng,
                                params=dict(kind=kind, unit=unit, K=K, direction=direction, nmax=nmax),
                                bounds=f"every {kind} start in years 1998..2000, step n in 1..{nmax} {unit}, every end such that at most {K} values are yielded, {direction}"))
    for kind in ("date", "utc"):
        out.append(dict(name=f"{kind} iteration by days", fn=rng, params=dict(kind=kind, unit="days", K=K, direction="forward", via="iter"),
                        bounds=f"direct iteration (days), at most {K} values"))
    for shape in ("gap", "overlap"):
        out.append(dict(name=f"zone iteration by days {shape}", fn=zone_iter, params=dict(shape=shape),
                        bounds="every start (whole minutes, year 2000) in a zone with one transition within +-3 days, end 2 days later +-23 h"))
    out.append(dict(name="contains", fn=contains, params=dict(kind="utc"), bounds="every triple of UTC DateTimes in years 1998..2000"))
    return out
