"""C15 -- calendar primitives agree with the proleptic Gregorian calendar."""
from __future__ import annotations

from vf import cal
from vf.symx import AND, OR, NOT, IMPLIES, IFF, ite, PathAbort

ID = "C15"
FUNCTIONS = [
    "pendulum._helpers:is_leap", "pendulum._helpers:is_long_year", "pendulum._helpers:week_day",
    "pendulum._helpers:days_in_year", "pendulum._helpers:local_time", "pendulum._helpers:_day_number",
    "pendulum.date:Date.day_of_week", "pendulum.date:Date.day_of_year", "pendulum.date:Date.week_of_year",
    "pendulum.date:Date.week_of_month", "pendulum.date:Date.days_in_month", "pendulum.date:Date.quarter",
    "pendulum.date:Date.is_leap_year", "pendulum.date:Date.is_long_year",
]
RUST_CROSSCHECK = True
ASSUMPTIONS = [
    "oracle = CPython's ord<->ymd algorithms on linear-form integers (vf/cal.py), validated per path "
    "against the C datetime module in the real-mode cross-run",
    "math.ceil(x / k) modelled as exact rational + bounded rounding error with the exact-quotient axiom",
    "Date getters executed on the model datetime base class (C date replaced by its contract)",
]
OUTSIDE = ["compiled (Rust) helpers: covered by the rsir cases when present, not by these cases",
           "float unix_time with a fractional part in local_time (only integral timestamps are symbolic)"]
REACH = ["leap century", "non-leap century", "long year", "negative timestamp", "feb 29"]


def _helpers(ctx):
    import sys
    return sys.modules["pendulum._helpers"] if ctx.mode == "sym" else __import__("pendulum._helpers", fromlist=["x"])


def year_prims(ctx):
    H = _helpers(ctx)
    y = ctx.year("y", 1, 9999)
    leap = cal.is_leap(y)
    r = H.is_leap(y)
    ctx.claim("is_leap", IFF(r, leap))
    ctx.claim("days_in_year", H.days_in_year(y) == ite(leap, 366, 365))
    long_ = cal.isocalendar(y, 12, 28)[1] == 53
    ctx.claim("is_long_year", IFF(H.is_long_year(y), long_))
    ctx.reach("leap century", AND(y % 400 == 0))
    ctx.reach("non-leap century", AND(y % 100 == 0, y % 400 != 0))
    ctx.reach("long year", long_)
    ctx.observe("r", [ite(r, 1, 0) if not isinstance(r, bool) else int(r)])


def week_day(ctx):
    H = _helpers(ctx)
    y = ctx.year("y", 1, 9999)
    m = ctx.int("m", 1, 12)
    d = ctx.int("d", 1, 31)
    ctx.assume(d <= cal.days_in_month(y, m))
    w = H.week_day(y, m, d)
    ctx.claim("week_day", w == cal.isoweekday(cal.ymd2ord(y, m, d)))
    ctx.reach("feb 29", AND(m == 2, d == 29))
    ctx.observe("w", w)


def day_number(ctx):
    H = _helpers(ctx)
    y = ctx.year("y", 1, 9999)
    m = ctx.int("m", 1, 12)
    d = ctx.int("d", 1, 31)
    ctx.assume(d <= cal.days_in_month(y, m))
    n = H._day_number(y, m, d)
    # _day_number is only used in differences: it must be the ordinal up to a constant
    ctx.claim("day_number", n - cal.ymd2ord(y, m, d) == H._day_number(1, 1, 1) - 1)
    ctx.observe("n", n)


def local_time(ctx, b, a_lo, a_hi):
    H = _helpers(ctx)
    # the *local* date in mixed-radix digits of its ordinal (year-1 = 400c+100b+4a+e), so that the
    # oracle (year, month, day) is linear in the inputs; t = local - offset
    c = ctx.int("c", 0, 24)
    a = ctx.int("a", a_lo, a_hi)
    e = ctx.int("e", 0, 3)
    doy = ctx.int("doy", 0, 365)
    sod = ctx.int("sod", 0, 86399)
    off = ctx.int("off", -86399, 86399)
    us = ctx.int("us", 0, 999999)
    y = 400 * c + 100 * b + 4 * a + e + 1
    leap = AND(e == 3, OR(a != 24, b == 3))
    ctx.assume(IMPLIES(NOT(leap), doy <= 364))
    ctx.assume(AND(y >= 2, y <= 9998))
    o = 146097 * c + 36524 * b + 1461 * a + 365 * e + doy + 1
    t = (o - cal.EPOCH_ORD) * 86400 + sod - off
    r = H.local_time(t, off, us)
    lp = ite(leap, 1, 0)
    em, dbm = 12, cal.DBM[11] + lp
    for i in range(11, 0, -1):
        cnd = doy + 1 <= cal.DBM[i] + (lp if i >= 2 else 0)
        em = ite(cnd, i, em)
        dbm = ite(cnd, cal.DBM[i - 1] + (lp if i - 1 >= 2 else 0), dbm)
    ctx.claim("local_time date", AND(r[0] == y, r[1] == em, r[2] == doy + 1 - dbm))
    ctx.claim("local_time time", AND(r[3] == sod // 3600, r[4] == sod % 3600 // 60, r[5] == sod % 60, r[6] == us))
    ctx.reach("negative timestamp", t < 0)
    ctx.observe("r", list(r))


def date_getters(ctx, kind, which):
    P = ctx.P
    y = ctx.year("y", 1, 9999) if kind != "zone" else ctx.year("y", 1998, 2000)
    m = ctx.int("m", 1, 12)
    d = ctx.int("d", 1, 31)
    ctx.assume(d <= cal.days_in_month(y, m))
    if kind == "zone":
        from props.common import make_zone, resolve_wall
        h = ctx.int("h", 0, 23); mi = ctx.int("mi", 0, 59)
        tz, Ts, offs = make_zone(ctx, "Verif/A", cal.ymd2ord(y, m, d))
        w = cal.ymd2ord(y, m, d) * 86400 + h * 3600 + mi * 60
        fold = ctx.int("fold", 0, 1)
        _, _, nvalid = resolve_wall(w, Ts, offs, fold == 1)
        ctx.assume(nvalid >= 1)
        ctx.assume(IMPLIES(nvalid == 1, fold == 0))
        x = P.DateTime(y, m, d, h, mi, 0, 0, tzinfo=tz, fold=fold)
    else:
        x = P.Date(y, m, d) if kind == "date" else P.DateTime(y, m, d, 12, 30, 15, tzinfo=P.UTC)
    o = cal.ymd2ord(y, m, d)
    if which == "day_of_week":
        dow = x.day_of_week
        ctx.claim("day_of_week", int(dow) == cal.weekday(o))
        ctx.observe("g", int(dow))
    elif which == "day_of_year":
        ctx.claim("day_of_year", x.day_of_year == o - cal.ymd2ord(y, 1, 1) + 1)
        ctx.observe("g", x.day_of_year)
    elif which == "week_of_year":
        ctx.claim("week_of_year", x.week_of_year == cal.isocalendar(y, m, d)[1])
        ctx.observe("g", x.week_of_year)
    elif which == "days_in_month":
        ctx.claim("days_in_month", x.days_in_month == cal.days_in_month(y, m))
        ctx.observe("g", x.days_in_month)
    elif which == "quarter":
        ctx.claim("quarter", x.quarter == (m - 1) // 3 + 1)
        ctx.observe("g", x.quarter)
    elif which == "is_leap_year":
        r = x.is_leap_year()
        ctx.claim("is_leap_year", IFF(r, cal.is_leap(y)))
        ctx.observe("g", ite(r, 1, 0))
    elif which == "is_long_year":
        r = x.is_long_year()
        ctx.claim("is_long_year", IFF(r, cal.isocalendar(y, 12, 28)[1] == 53))
        ctx.observe("g", ite(r, 1, 0))
    elif which == "week_of_month":
        # weeks are the Monday-based rows of the month calendar
        first_iso = cal.isoweekday(cal.ymd2ord(y, m, 1))
        wom = x.week_of_month
        ctx.claim("week_of_month", wom == (d + first_iso - 2) // 7 + 1)
        ctx.observe("g", wom)


GETTERS = ["day_of_week", "day_of_year", "week_of_year", "days_in_month", "quarter", "is_leap_year",
           "is_long_year", "week_of_month"]


def model_lemma(ctx, which):
    """kernel obligation of the model datetime: single-day steps on the fields equal the ordinal round trip"""
    y = ctx.year("y", 1, 9999)
    m = ctx.int("m", 1, 12)
    d = ctx.int("d", 1, 31)
    ctx.assume(d <= cal.days_in_month(y, m))
    o = cal.ymd2ord(y, m, d)
    if which == "succ":
        ctx.assume(o < cal.MAXORDINAL)
        a = cal.succ_day(y, m, d)
        ctx.claim("succ_day == ord2ymd(ord + 1)", cal.ymd2ord(*a) == o + 1)
        ctx.claim("succ_day is a valid date", cal.valid_date(*a))
    elif which == "pred":
        ctx.assume(o > 1)
        a = cal.pred_day(y, m, d)
        ctx.claim("pred_day == ord2ymd(ord - 1)", cal.ymd2ord(*a) == o - 1)
        ctx.claim("pred_day is a valid date", cal.valid_date(*a))
    else:
        a = cal.ord2ymd(o)
        ctx.claim("ord2ymd(ymd2ord(y, m, d)) == (y, m, d)", AND(a[0] == y, a[1] == m, a[2] == d))
        ctx.claim("ord2ymd yields a valid date", cal.valid_date(*a))
    if ctx.mode == "real":
        import datetime
        r = datetime.date.fromordinal(o + (1 if which == "succ" else -1 if which == "pred" else 0))
        ctx.claim("agrees with the C datetime module", AND(a[0] == r.year, a[1] == r.month, a[2] == r.day))
    ctx.observe("a", list(a))


def cases(tier):
    return [
        dict(name="year primitives", fn=year_prims, bounds="every year 1..9999"),
        dict(name="week_day", fn=week_day, bounds="every valid date in years 1..9999"),
        dict(name="_day_number", fn=day_number, bounds="every valid date in years 1..9999"),
    ] + [
        dict(name=f"local_time b={b} a={lo}..{hi}", fn=local_time, params=dict(b=b, a_lo=lo, a_hi=hi),
             bounds="every integral unix time whose local date lies in years 2..9998 (this case: century digit "
                    f"{b}, 4-year groups {lo}..{hi}) x offsets -86399..86399 s x microseconds")
        for b in range(4) for lo, hi in ((0, 4), (5, 9), (10, 14), (15, 19), (20, 24))
    ] + [
    ] + [
        dict(name=f"model lemma {w}", fn=model_lemma, params=dict(which=w),
             bounds="every valid date in years 1..9999 (obligation of the model datetime, not of pendulum)")
        for w in ("succ", "pred", "roundtrip")
    ] + [
        dict(name=f"{kind} {g}", fn=date_getters, params=dict(kind=kind, which=g),
             bounds="every valid date in years 1..9999" + (" as a UTC DateTime" if kind == "datetime" else ""))
        for kind in ("date", "datetime") for g in GETTERS
    ] + [
        dict(name=f"zone {g}", fn=date_getters, params=dict(kind="zone", which=g),
             bounds="every valid DateTime (whole minutes, both folds) in years 1998..2000 in a zone with one transition anywhere "
                    "within +-400 days, any offsets")
        for g in ("day_of_year", "day_of_week", "week_of_year", "days_in_month", "quarter")
    ]
