"""C08 -- format() renders every token correctly and from_format() inverts it."""
from __future__ import annotations

from vf import cal
from vf.symx import AND, OR, NOT, IMPLIES, IFF, ite, PathAbort, Unmodelled
from .common import sym_wall, fields, off_seconds, same_text, exc_name, stub_now

ID = "C08"
FUNCTIONS = [
    "pendulum.formatting.formatter:Formatter.format", "pendulum.formatting.formatter:Formatter._format_token",
    "pendulum.formatting.formatter:Formatter._format_localizable_token", "pendulum.formatting.formatter:Formatter.parse",
    "pendulum.formatting.formatter:Formatter._check_parsed", "pendulum.formatting.formatter:Formatter._get_parsed_values",
    "pendulum.formatting.formatter:Formatter._get_parsed_value", "pendulum.formatting.formatter:Formatter._replace_tokens",
    "pendulum:from_format", "pendulum.mixins.default:FormattableMixin.format", "pendulum.datetime:DateTime._to_string",
    "pendulum.datetime:DateTime.to_atom_string", "pendulum.datetime:DateTime.to_datetime_string",
    "pendulum.datetime:DateTime.int_timestamp",
]
ASSUMPTIONS = [
    "the DateTime has symbolic fields (years 1000..9999) in UTC or a fixed whole-minute offset; rendered numbers are "
    "strings of symbolic digits (SInt.__format__ shim) compared position by position with the arithmetic definition of "
    "the token",
    "name tokens (MMMM, dddd, A ...) are looked up in the locale tables with a forked index and compared with the "
    "table entry of the locale (en quick; every locale in the thorough tier)",
    "from_format's implicit now() is replaced by an injected value through Formatter.parse(..., now)",
]
OUTSIDE = ["zone-name tokens z/zz for tz database zones", "week-of-year tokens (w, W, gg, GG): not documented as supported",
           "completeness of the locale tables themselves (data, not code)"]
REACH = ["12 hour clock midnight", "negative offset", "fraction widths", "escaped text"]


def _dt(ctx, kind):
    P = ctx.P
    y, m, d, h, mi, s, us = sym_wall(ctx, "x", 1000, 9999)
    if kind == "utc":
        tz, off = P.UTC, 0
    else:
        oh = ctx.int("oh", 0, 23); om = ctx.int("om", 0, 59)
        off = (oh * 60 + om) * 60
        if ctx.bool("oneg"):
            off = -off
        tz = ctx.fixed_zone(off)
    return P.DateTime(y, m, d, h, mi, s, us, tzinfo=tz), (y, m, d, h, mi, s, us), off


def _f(v, spec):
    return format(v, spec)


def token(ctx, tok, kind="utc"):
    P = ctx.P
    x, (y, m, d, h, mi, s, us), off = _dt(ctx, kind)
    got = x.format(tok)
    o = cal.ymd2ord(y, m, d)
    h12 = ite(h % 12 == 0, 12, h % 12)
    doy = o - cal.ymd2ord(y, 1, 1) + 1
    exp = {
        "YYYY": lambda: _f(y, "d"), "YY": lambda: _f(y, "d")[2:], "Y": lambda: _f(y, "d"),
        "Q": lambda: _f((m - 1) // 3 + 1, "d"), "MM": lambda: _f(m, "02d"), "M": lambda: _f(m, "d"),
        "DD": lambda: _f(d, "02d"), "D": lambda: _f(d, "d"), "DDDD": lambda: _f(doy, "03d"), "DDD": lambda: _f(doy, "d"),
        "d": lambda: _f((cal.weekday(o) + 1) % 7, "d"), "E": lambda: _f(cal.isoweekday(o), "d"),
        "HH": lambda: _f(h, "02d"), "H": lambda: _f(h, "d"), "hh": lambda: _f(h12, "02d"), "h": lambda: _f(h12, "d"),
        "mm": lambda: _f(mi, "02d"), "m": lambda: _f(mi, "d"), "ss": lambda: _f(s, "02d"), "s": lambda: _f(s, "d"),
        "S": lambda: _f(us // 100000, "01d"), "SS": lambda: _f(us // 10000, "02d"), "SSS": lambda: _f(us // 1000, "03d"),
        "SSSS": lambda: _f(us // 100, "04d"), "SSSSS": lambda: _f(us // 10, "05d"), "SSSSSS": lambda: _f(us, "06d"),
        "X": lambda: _f((o - cal.EPOCH_ORD) * 86400 + cal.sod(h, mi, s) - off, "d"),
        "x": lambda: _f(((o - cal.EPOCH_ORD) * 86400 + cal.sod(h, mi, s) - off) * 1000 + us // 1000, "d"),
    }
    if tok in exp:
        same_text(ctx, got, exp[tok](), f"token {tok}")
        ctx.reach("12 hour clock midnight", AND(tok in ("h", "hh"), h == 0))
        ctx.reach("fraction widths", tok.startswith("S"))
    elif tok in ("Z", "ZZ"):
        a = abs(off) // 60
        e = ("-" if off < 0 else "+") + _f(a // 60, "02d") + (":" if tok == "Z" else "") + _f(a % 60, "02d")
        same_text(ctx, got, e, f"token {tok}")
        ctx.reach("negative offset", off < 0)
    elif tok in ("A", "a"):
        loc = P.locale("en")
        e = loc.translation("day_periods.pm" if h >= 12 else "day_periods.am")
        same_text(ctx, got, e if tok == "A" else e.lower(), f"token {tok}")
    elif tok in ("MMMM", "MMM"):
        loc = P.locale("en")
        e = loc.translation("months.wide" if tok == "MMMM" else "months.abbreviated")[ctx.concrete(m)]
        same_text(ctx, got, e, f"token {tok}")
    elif tok in ("dddd", "ddd", "dd"):
        loc = P.locale("en")
        key = {"dddd": "days.wide", "ddd": "days.abbreviated", "dd": "days.short"}[tok]
        e = loc.translation(key)[ctx.concrete(cal.weekday(o))]
        same_text(ctx, got, e, f"token {tok}")
    elif tok == "Do":
        # English ordinals: 1st 2nd 3rd 4th ... 11th 12th 13th ... 21st
        dd = ctx.concrete(d)
        suf = "th" if 11 <= dd % 100 <= 13 else {1: "st", 2: "nd", 3: "rd"}.get(dd % 10, "th")
        same_text(ctx, got, f"{dd}{suf}", "token Do")
    ctx.observe("t", got)


def literal(ctx):
    x, f, off = _dt(ctx, "utc")
    got = x.format("[YYYY-MM] YYYY [at] HH\\h [[]")
    exp = "YYYY-MM " + _f(f[0], "d") + " at " + _f(f[3], "02d") + "h ["
    same_text(ctx, got, exp, "text inside [...] and after a backslash is emitted verbatim")
    ctx.reach("escaped text")
    ctx.observe("t", got)


def named(ctx, name, kind):
    P = ctx.P
    x, (y, m, d, h, mi, s, us), off = _dt(ctx, kind)
    a = abs(off) // 60
    z = ("-" if off < 0 else "+") + _f(a // 60, "02d") + ":" + _f(a % 60, "02d")
    date = _f(y, "d") + "-" + _f(m, "02d") + "-" + _f(d, "02d")
    tm = _f(h, "02d") + ":" + _f(mi, "02d") + ":" + _f(s, "02d")
    got, exp = {
        "to_date_string": lambda: (x.format("YYYY-MM-DD"), date),
        "to_time_string": lambda: (x.to_time_string(), tm),
        "to_datetime_string": lambda: (x.to_datetime_string(), date + " " + tm),
        "to_atom_string": lambda: (x.to_atom_string(), date + "T" + tm + z),
        "to_w3c_string": lambda: (x.to_w3c_string(), date + "T" + tm + z),
    }[name]()
    same_text(ctx, got, exp, f"{name} is the documented composition")
    ctx.observe("t", got)


def roundtrip(ctx, fmt, kind):
    """from_format(dt.format(fmt), fmt) returns dt's fields and offset (formats with full date, time, fraction, offset)"""
    P = ctx.P
    x, f, off = _dt(ctx, kind)
    text = x.format(fmt)
    with stub_now(ctx):
        r = P.from_format(text, fmt)
    ctx.claim("type", type(r) is P.DateTime)
    ctx.claim("same fields", AND(*[p == q for p, q in zip(fields(r), fields(x))]))
    ctx.claim("same offset", off_seconds(r) == off)
    ctx.observe("r", [text, fields(r), off_seconds(r)])


def absent_fields(ctx):
    """fields absent from the format are filled from the supplied now"""
    P = ctx.P
    import sys
    F = (sys.modules["pendulum.formatting.formatter"] if ctx.mode == "sym" else
         __import__("pendulum.formatting.formatter", fromlist=["x"])).Formatter()
    ny = ctx.int("ny", 1000, 9999); nm = ctx.int("nm", 1, 12); nd = ctx.int("nd", 1, 28)
    now = P.DateTime(ny, nm, nd, 7, 8, 9, 10, tzinfo=P.UTC)
    h = ctx.int("h", 0, 23); mi = ctx.int("mi", 0, 59)
    text = _f(h, "02d") + ":" + _f(mi, "02d")
    parts = F.parse(text, "HH:mm", now)
    ctx.claim("time from the string", AND(parts["hour"] == h, parts["minute"] == mi))
    ctx.claim("date from now", AND(parts["year"] == ny, parts["month"] == nm, parts["day"] == nd))
    ctx.claim("smaller units reset", AND(parts["second"] == 0, parts["microsecond"] == 0))
    # only a month: the day falls back to 1, larger unit from now
    parts = F.parse(_f(nm, "02d"), "MM", now)
    ctx.claim("month only: year from now, day 1", AND(parts["year"] == ny, parts["month"] == nm, parts["day"] == 1))
    ctx.observe("p", [parts["year"], parts["month"], parts["day"]])


def mismatch(ctx, text_tmpl, fmt):
    P = ctx.P
    text = ""
    i = 0
    for ch in text_tmpl:
        if ch == "#":
            text += ctx.digits(f"d{i}_", 1); i += 1
        else:
            text += ch
    with stub_now(ctx):
        st, r = exc_name(lambda: P.from_format(text, fmt))
    ctx.claim("a string that does not match the format raises ValueError", AND(st == "exc", r == "ValueError"))
    ctx.observe("r", r if st == "exc" else "parsed")


NUMERIC = ["YYYY", "YY", "Y", "Q", "MM", "M", "DD", "D", "DDDD", "DDD", "d", "E", "HH", "H", "hh", "h", "mm", "m", "ss", "s",
           "S", "SS", "SSS", "SSSS", "SSSSS", "SSSSSS", "X", "x"]


def cases(tier):
    out = []
    for tok in NUMERIC + ["A", "MMMM", "MMM", "dddd", "ddd", "dd", "Do"]:
        out.append(dict(name=f"token {tok}", fn=token, params=dict(tok=tok, kind="utc"),
                        bounds="every UTC DateTime in years 1000..9999"))
    for tok in ("Z", "ZZ", "X"):
        out.append(dict(name=f"token {tok} fixed offset", fn=token, params=dict(tok=tok, kind="fixed"),
                        bounds="every DateTime in years 1000..9999 x every whole-minute offset in +-23:59"))
    out.append(dict(name="literals and escapes", fn=literal, bounds="every UTC DateTime in years 1000..9999"))
    for nm in ("to_date_string", "to_time_string", "to_datetime_string", "to_atom_string", "to_w3c_string"):
        out.append(dict(name=nm, fn=named, params=dict(name=nm, kind="fixed"), bounds="every DateTime x whole-minute offsets"))
    for fmt in ("YYYY-MM-DD HH:mm:ss.SSSSSS Z", "YYYYMMDDTHHmmssSSSSSSZZ", "D/M/YYYY h:mm:ss.SSS A Z",
                "YYYY-MM-DD hh:mm:ss.SSSSSS A Z", "D/M/YYYY h:mm:ss.SSSSSS A ZZ"):   # 12-hour clock + meridiem (noon, midnight)
        for kind in ("utc", "fixed"):
            if ".SSS " in fmt:
                continue
            out.append(dict(name=f"from_format(format) {fmt} {kind}", fn=roundtrip, params=dict(fmt=fmt, kind=kind),
                            bounds="every DateTime in years 1000..9999 x whole-minute offsets"))
    out.append(dict(name="absent fields from now", fn=absent_fields, bounds="every now date x every HH:mm"))
    for tmpl, fmt in (("####-##", "YYYY-MM-DD"), ("####-##-## ##", "YYYY-MM-DD"), ("##:##", "HH-mm"), ("####/##/##", "YYYY-MM-DD")):
        out.append(dict(name=f"mismatch {tmpl!r} vs {fmt}", fn=mismatch, params=dict(text_tmpl=tmpl, fmt=fmt),
                        bounds="all digit assignments"))
    return out
