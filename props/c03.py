"""C03 -- adding fixed-length units moves the instant by exactly that elapsed time."""
from __future__ import annotations

from vf import cal
from vf.symx import AND, OR, NOT, IMPLIES, IFF, ite, PathAbort
from .common import (sym_wall, make_zone, resolve_wall, render, wall_s, off_seconds, exc_name, fields,
                     sym_offset, mixed_amount, valid_source as _source)

ID = "C03"
FUNCTIONS = [
    "pendulum.datetime:DateTime.add", "pendulum.datetime:DateTime.subtract", "pendulum.helpers:add_duration",
    "pendulum.helpers:_sign", "pendulum.datetime:DateTime._add_timedelta_", "pendulum.datetime:DateTime._subtract_timedelta",
    "pendulum.datetime:DateTime.__add__", "pendulum.datetime:DateTime.__radd__", "pendulum.datetime:DateTime.__sub__",
    "pendulum.datetime:DateTime.astimezone", "pendulum.tz.timezone:Timezone.convert",
    "pendulum.tz.timezone:FixedTimezone.convert", "pendulum.tz.timezone:FixedTimezone.fromutc",
    "pendulum.datetime:DateTime.create",
]
ASSUMPTIONS = [
    "zoneinfo.ZoneInfo replaced by its PEP 495 contract with one (quick) or two (thorough) symbolic transitions",
    "C datetime/timedelta replaced by the CPython-3.12 model; float steps (total_seconds, float divmod in "
    "add_duration, timedelta(float)) under the interval-error float model: every admissible rounding at once",
    "the source value is a valid local time of its zone (constructed directly with its fold)",
]
OUTSIDE = ["amounts beyond the stated number of days per component", "float `seconds=` arguments with a fractional part "
           "other than those produced by timedelta.total_seconds()", "years outside the stated windows"]
REACH = ["crosses a transition forward", "crosses a transition backward", "lands in overlap second pass",
         "starts in overlap fold=0", "naive", "out of range raises"]


def _check_result(ctx, r, tz, Ts, offs, u_exp, us_exp, label):
    """r must be the contract rendering of instant (u_exp seconds, us_exp microseconds)"""
    ew, eoff, efold = render(u_exp, Ts, offs)
    ctx.claim(f"{label}: local fields are the rendering of the instant", AND(wall_s(r) == ew, r.microsecond == us_exp))
    if tz is not None:
        ctx.claim(f"{label}: utc offset", off_seconds(r) == eoff)
        ctx.claim(f"{label}: timezone kept", r.tzinfo is tz)
        if Ts:
            ctx.claim(f"{label}: fold", IFF(r.fold == 1, efold))
    else:
        ctx.claim(f"{label}: stays naive", r.tzinfo is None)


def add_units(ctx, kind, days, ylo, yhi, ntrans=1, signs=(0, 0, 0, 0), method="add", units="hmsu", shape=None, fold=None):
    x, tz, Ts, offs, u, us = _source(ctx, kind, ylo, yhi, ntrans, shape, fold_fixed=fold)
    hours = mixed_amount(ctx, "hours", "h", days, neg=bool(signs[0])) if "h" in units else 0
    minutes = mixed_amount(ctx, "minutes", "m", days, neg=bool(signs[1])) if "m" in units else 0
    seconds = mixed_amount(ctx, "seconds", "s", days, neg=bool(signs[2])) if "s" in units else 0
    micro = mixed_amount(ctx, "micro", "us", days, neg=bool(signs[3])) if "u" in units else 0
    amt = ((hours * 60 + minutes) * 60 + seconds) * 1000000 + micro
    if method == "subtract":
        amt = -amt
    tot = u * 1000000 + us + amt
    u2, us2 = tot // 1000000, tot % 1000000
    # subtract(a) from x and add(a) from x are both checked against the exact instant for *every* valid
    # start value, so "subtract undoes add" (start value = the add result) is the composition of the two
    r = getattr(x, method)(hours=hours, minutes=minutes, seconds=seconds, microseconds=micro)
    ctx.claim("type", type(r) is ctx.P.DateTime)
    _check_result(ctx, r, tz, Ts, offs, u2, us2, method)
    if Ts:
        ctx.reach("crosses a transition forward", AND(u < Ts[0], u2 >= Ts[0]))
        ctx.reach("crosses a transition backward", AND(u >= Ts[0], u2 < Ts[0]))
        ctx.reach("lands in overlap second pass", render(u2, Ts, offs)[2])
    if tz is None:
        ctx.reach("naive")
    ctx.observe("r", fields(r) + [off_seconds(r), r.fold])


def timedelta_ops(ctx, kind, op, days, ylo, yhi, ntrans=1, shape=None, fold=None):
    x, tz, Ts, offs, u, us = _source(ctx, kind, ylo, yhi, ntrans, shape, fold_fixed=fold)
    d = ctx.int("td_d", -days, days)
    s = ctx.int("td_s", 0, 86399)
    m = ctx.int("td_us", 0, 999999)
    td = ctx.dt.timedelta(d, s, m)
    amt = (d * 86400 + s) * 1000000 + m
    if op == "add":
        r = x + td
        sign = 1
    elif op == "radd":
        r = td + x
        sign = 1
    else:
        r = x - td
        sign = -1
    tot = u * 1000000 + us + sign * amt
    ctx.claim("type", type(r) is ctx.P.DateTime)
    _check_result(ctx, r, tz, Ts, offs, tot // 1000000, tot % 1000000, op)
    ctx.observe("r", fields(r) + [off_seconds(r), r.fold])


def range_edge(ctx, edge):
    """results outside years 1..9999 raise OverflowError/ValueError, and only those do"""
    P = ctx.P
    if edge == "max":
        y, m, d, h, mi, s, us = sym_wall(ctx, "x", 9999, 9999)
    else:
        y, m, d, h, mi, s, us = sym_wall(ctx, "x", 1, 1)
    x = P.DateTime(y, m, d, h, mi, s, us, tzinfo=P.UTC)
    hours = mixed_amount(ctx, "hours", "h", 400)
    seconds = mixed_amount(ctx, "seconds", "s", 400)
    w = cal.ymd2ord(y, m, d) * 86400 + cal.sod(h, mi, s)
    tot = w + hours * 3600 + seconds
    in_range = AND(tot >= 86400, tot < (cal.MAXORDINAL + 1) * 86400)
    st, r = exc_name(lambda: x.add(hours=hours, seconds=seconds))
    ctx.claim("raises exactly when out of years 1..9999",
              IFF(NOT(in_range), st == "exc") if st == "exc" else in_range)
    if st == "exc":
        ctx.claim("OverflowError or ValueError", r in ("OverflowError", "ValueError"))
        ctx.reach("out of range raises")
        ctx.observe("exc", r)
    else:
        ctx.claim("value", AND(wall_s(r) == tot, r.microsecond == us))
        ctx.observe("r", fields(r))


def cases(tier):
    out = []
    if tier == "quick":
        days, win, nts = 400, (1998, 2000), (1,)
        # adjacent units get every sign combination (h/m, m/s, s/us)
        sign_patterns = [(a, b, a, b) for a in (0, 1) for b in (0, 1)]
    else:
        days, win, nts = 4000, (1998, 2000), (1, 2)
        sign_patterns = [(0, 0, 0, 0), (0, 1, 0, 1), (1, 0, 1, 0), (1, 1, 1, 1), (0, 0, 1, 1), (1, 1, 0, 0), (0, 1, 1, 0), (1, 0, 0, 1)]
    for kind in ("zone", "utc", "fixed", "naive"):
        for nt in (nts if kind == "zone" else (1,)):
            w = win if nt == 1 else (1998, 2000)
            dd = days if nt == 1 else 400
            if tier == "quick" and kind == "zone":
                # the carry chain with all four units is decided on utc/fixed/naive; with a zone the quick tier
                # takes the units two at a time (thorough: all four, all sign patterns)
                combos = [(u, sg) for u in ("hu", "ms") for sg in sign_patterns[1:3]]     # mixed signs; equal signs: utc/fixed/naive
            elif tier == "quick" and kind in ("fixed", "naive"):
                combos = [("hmsu", sg) for sg in sign_patterns[:1] + sign_patterns[-1:]] + [("ms", sign_patterns[1])]
            else:
                combos = [("hmsu", sg) for sg in sign_patterns]
            methods = ("add", "subtract")
            if tier == "quick" and kind == "zone":
                # subtract(a) is add(-a) and is decided with all units on utc/fixed/naive; the quick zone cases use a
                # single (leap) year so that the leap-year branches of add_duration do not multiply the zone branches
                methods, w = ("add",), (2000, 2000)
            for units, sg in combos:
              for method in methods:
               for shape in (("gap", "overlap") if kind == "zone" else (None,)):
                for fold in ((0, 1) if (kind == "zone" and shape == "overlap") else (None,)):
                  out.append(dict(name=f"{method} {kind}{nt if kind == 'zone' else ''} {shape or ''}{'' if fold is None else ' fold=%d' % fold} units={units} signs={''.join('-' if x else '+' for x in sg)}",
                                fn=add_units, params=dict(kind=kind, days=dd, ylo=w[0], yhi=w[1], ntrans=nt, signs=sg,
                                                          method=method, units=units, shape=shape, fold=fold),
                                bounds=f"every valid DateTime ({kind}) in years {w[0]}..{w[1]}, both folds x units {units} of "
                                       f"hours/minutes/seconds/microseconds (signs {sg}: 1 = negative) each spanning up to {dd} days"
                                       + (f" x every zone with {nt} transition(s) within +-400 days" if kind == "zone" else "")))
    for kind in ("zone", "utc", "naive"):
        for op in ("add", "radd", "sub"):
          if tier == "quick" and kind == "zone" and op == "radd":
              continue            # __radd__ is __add__; decided on utc/naive in the quick tier
          for shape in (("gap", "overlap") if kind == "zone" else (None,)):
           for fold in ((0, 1) if (kind == "zone" and shape == "overlap") else (None,)):
            w = (2000, 2000) if (tier == "quick" and kind == "zone") else win
            out.append(dict(name=f"timedelta {op} {kind} {shape or ''}{'' if fold is None else ' fold=%d' % fold}", fn=timedelta_ops,
                            params=dict(kind=kind, op=op, days=min(days, 99000) if tier != "quick" else 40, ylo=w[0], yhi=w[1], shape=shape, fold=fold),
                            bounds=f"every valid DateTime ({kind}) in years {win[0]}..{win[1]} x every native timedelta with "
                                   f"|days| <= {min(days, 99000)} (float path: total_seconds() < 2^33 s)"))
    for edge in ("min", "max"):
        out.append(dict(name=f"range edge {edge}", fn=range_edge, params=dict(edge=edge),
                        bounds="every UTC DateTime in year 1 / 9999 x hours and seconds of either sign up to 400 days"))
    return out
