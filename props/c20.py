"""C20 -- time-of-day arithmetic wraps modulo 24 hours exactly."""
from __future__ import annotations

from vf.symx import AND, OR, NOT, IMPLIES, IFF, ite, PathAbort
from .common import native_triple, td_us, tod_us, exc_name, mixed_amount

ID = "C20"
FUNCTIONS = [
    "pendulum.time:Time.add", "pendulum.time:Time.subtract", "pendulum.time:Time.add_timedelta",
    "pendulum.time:Time.subtract_timedelta", "pendulum.time:Time.__add__", "pendulum.time:Time.__sub__",
    "pendulum.time:Time.__rsub__", "pendulum.time:Time.diff", "pendulum.time:Time.closest",
    "pendulum.time:Time.farthest", "pendulum.datetime:DateTime.at", "pendulum.datetime:DateTime.set",
    "pendulum.datetime:DateTime.create", "pendulum.datetime:DateTime.add", "pendulum.datetime:DateTime.subtract",
    "pendulum.datetime:DateTime.time", "pendulum.helpers:add_duration", "pendulum.tz.timezone:Timezone.convert",
    "pendulum.duration:Duration.__new__", "pendulum.duration:AbsoluteDuration.__new__",
]
ASSUMPTIONS = [
    "C datetime/time/timedelta replaced by the CPython-3.12 model (vf/mdatetime.py); UTC zone by its contract",
    "float steps of Duration.__new__ (total_seconds, % 1, * 1e6, round) under the interval-error float model",
]
OUTSIDE = ["amounts whose total exceeds the stated ranges", "aware Time operands other than the rejected-with-TypeError case"]
REACH = ["wrap forward past midnight", "wrap backward past midnight", "timedelta with days rejected",
         "diff negative", "closest differs by sub-second"]
DAY = 86400 * 10**6


def _time(ctx, p):
    return ctx.P.Time(ctx.int(p + "h", 0, 23), ctx.int(p + "m", 0, 59), ctx.int(p + "s", 0, 59),
                      ctx.int(p + "u", 0, 999999))


def add_sub(ctx, method, days):
    t = _time(ctx, "t")
    hours = mixed_amount(ctx, "hours", "h", days)
    minutes = mixed_amount(ctx, "minutes", "m", days)
    seconds = mixed_amount(ctx, "seconds", "s", days)
    micro = mixed_amount(ctx, "micro", "us", days)
    amt = ((hours * 60 + minutes) * 60 + seconds) * 1000000 + micro
    sign = 1 if method == "add" else -1
    r = getattr(t, method)(hours=hours, minutes=minutes, seconds=seconds, microseconds=micro)
    ctx.claim("type is Time", type(r) is ctx.P.Time)
    exp = (tod_us(t) + sign * amt) % DAY
    ctx.claim(f"{method} wraps mod 24h", tod_us(r) == exp)
    back = getattr(r, "subtract" if method == "add" else "add")(
        hours=hours, minutes=minutes, seconds=seconds, microseconds=micro)
    ctx.claim("inverse operation returns", tod_us(back) == tod_us(t))
    ctx.reach("wrap forward past midnight", tod_us(t) + sign * amt >= DAY)
    ctx.reach("wrap backward past midnight", tod_us(t) + sign * amt < 0)
    ctx.observe("r", [r.hour, r.minute, r.second, r.microsecond])


def timedelta_ops(ctx, op):
    t = _time(ctx, "t")
    d = ctx.int("d", -2, 2)
    s = ctx.int("s", 0, 86399)
    u = ctx.int("u", 0, 999999)
    td = ctx.dt.timedelta(d, s, u)
    if op == "+":
        st, r = exc_name(lambda: t + td)
    elif op == "-":
        st, r = exc_name(lambda: t - td)
    elif op == "add_timedelta":
        st, r = exc_name(lambda: t.add_timedelta(td))
    else:
        st, r = exc_name(lambda: t.subtract_timedelta(td))
    sign = 1 if op in ("+", "add_timedelta") else -1
    ctx.claim("day-bearing timedelta rejected with TypeError",
              IFF(d != 0, AND(st == "exc", r == "TypeError")) if st == "exc" else (d == 0))
    if st == "ok":
        ctx.claim("type is Time", type(r) is ctx.P.Time)
        ctx.claim("shift mod 24h", tod_us(r) == (tod_us(t) + sign * (s * 1000000 + u)) % DAY)
        ctx.observe("r", [r.hour, r.minute, r.second, r.microsecond])
    else:
        ctx.reach("timedelta with days rejected")
        ctx.observe("exc", r)


def diff(ctx, how):
    P = ctx.P
    t1 = _time(ctx, "a")
    t2 = _time(ctx, "b")
    delta = tod_us(t2) - tod_us(t1)
    if how == "diff_abs":
        r = t1.diff(t2)
        exp = abs(delta)
        ctx.claim("abs diff non-negative magnitude", td_us(ctx, r) == exp)
    elif how == "diff_signed":
        r = t1.diff(t2, False)
        ctx.claim("signed diff", td_us(ctx, r) == delta)
        ctx.reach("diff negative", delta < 0)
    elif how == "sub":
        r = t2 - t1
        ctx.claim("t2 - t1 signed", td_us(ctx, r) == delta)
    else:  # rsub with a native time on the left
        nt = ctx.dt.time(t2.hour, t2.minute, t2.second, t2.microsecond)
        r = nt - t1
        ctx.claim("native - Time signed", td_us(ctx, r) == delta)
    ctx.claim("returns Duration", isinstance(r, P.Duration))
    ctx.observe("r", list(native_triple(ctx, r)))


def closest(ctx, which):
    t = _time(ctx, "t")
    a = _time(ctx, "a")
    b = _time(ctx, "b")
    da = abs(tod_us(a) - tod_us(t))
    db = abs(tod_us(b) - tod_us(t))
    ctx.assume(da != db)
    r = t.closest(a, b) if which == "closest" else t.farthest(a, b)
    want_a = (da < db) if which == "closest" else (da > db)
    ctx.claim(f"{which} chooses by distance", tod_us(r) == ite(want_a, tod_us(a), tod_us(b)))
    ctx.reach("closest differs by sub-second", AND(da // 1000000 == db // 1000000))
    ctx.observe("r", [r.hour, r.minute, r.second, r.microsecond])


def cases(tier):
    days = 10 if tier == "quick" else 1000
    b = (f"every time of day x hours, minutes, seconds, microseconds each of either sign and each spanning up to "
         f"+-{days} days (given as mixed-radix digits)")
    return [
        dict(name="add()", fn=add_sub, params=dict(method="add", days=days), bounds=b),
        dict(name="subtract()", fn=add_sub, params=dict(method="subtract", days=days), bounds=b),
    ] + [
        dict(name=f"timedelta {op}", fn=timedelta_ops, params=dict(op=op),
             bounds="every time of day x every timedelta with days in -2..2, any seconds/microseconds")
        for op in ("+", "-", "add_timedelta", "subtract_timedelta")
    ] + [
        dict(name=f"diff {how}", fn=diff, params=dict(how=how), bounds="every pair of times of day")
        for how in ("diff_abs", "diff_signed", "sub", "rsub")
    ] + [
        dict(name=w, fn=closest, params=dict(which=w), bounds="every triple of times of day with distinct distances")
        for w in ("closest", "farthest")
    ]
