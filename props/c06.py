"""C06 -- interval components are canonical and rebuild the end from the start."""
from __future__ import annotations

from vf import cal
from vf.symx import AND, OR, NOT, IMPLIES, IFF, ite, PathAbort
from .common import (sym_wall, make_zone, resolve_wall, render, wall_s, off_seconds, exc_name, fields,
                     sym_offset, valid_source, native_triple, td_us)

ID = "C06"
FUNCTIONS = [
    "pendulum._helpers:precise_diff", "pendulum._helpers:_day_number", "pendulum._helpers:_get_tzinfo_name",
    "pendulum._helpers:is_leap", "pendulum.interval:Interval.__new__", "pendulum.interval:Interval.__init__",
    "pendulum.interval:Interval.years", "pendulum.interval:Interval.months", "pendulum.interval:Interval.weeks",
    "pendulum.interval:Interval.remaining_days", "pendulum.interval:Interval.hours", "pendulum.interval:Interval.minutes",
    "pendulum.interval:Interval.in_months", "pendulum.interval:Interval.in_years",
    "pendulum.duration:Duration.remaining_seconds", "pendulum.duration:Duration.microseconds",
    "pendulum.datetime:DateTime._add_timedelta_", "pendulum.datetime:DateTime.add", "pendulum.date:Date._add_timedelta",
    "pendulum.date:Date.add", "pendulum.helpers:add_duration",
]
RUST_CROSSCHECK = True
ASSUMPTIONS = [
    "C datetime replaced by the CPython-3.12 model; zoneinfo by its contract",
    "rebuild oracle: years/months shift with end-of-month clamping, then days and the time of day (vf/cal.py)",
    "same-zone pairs are restricted as the property says: both endpoints carry the same UTC offset and the end "
    "is not an ambiguous wall time",
]
OUTSIDE = ["the compiled (Rust) precise_diff: only cross-run concretely on each explored path's model (evidence: "
           "rust_crosscheck), not decided symbolically -- its arithmetic is interleaved with pyo3 FFI calls",
           "years outside the stated window"]
REACH = ["day borrow", "start day clamped in the end month", "month borrow", "time-of-day borrow",
         "end of February", "different zones", "inverted"]


def _components(r):
    return dict(years=r.years, months=r.months, weeks=r.weeks, days=r.remaining_days, hours=r.hours,
                minutes=r.minutes, seconds=r.remaining_seconds, microseconds=r.microseconds)


def _range_claims(ctx, c, sign):
    """canonical ranges, all components carrying `sign` (+1 for a <= b)"""
    s = sign
    ctx.claim("years >= 0", s * c["years"] >= 0)
    ctx.claim("months in 0..11", AND(s * c["months"] >= 0, s * c["months"] <= 11))
    dd = s * (c["weeks"] * 7 + c["days"])
    ctx.claim("days in 0..30", AND(dd >= 0, dd <= 30))
    ctx.claim("weeks/remaining_days split", AND(s * c["days"] >= 0, s * c["days"] <= 6, s * c["weeks"] >= 0))
    ctx.claim("hours in 0..23", AND(s * c["hours"] >= 0, s * c["hours"] <= 23))
    ctx.claim("minutes in 0..59", AND(s * c["minutes"] >= 0, s * c["minutes"] <= 59))
    ctx.claim("seconds in 0..59", AND(s * c["seconds"] >= 0, s * c["seconds"] <= 59))
    ctx.claim("microseconds in 0..999999", AND(s * c["microseconds"] >= 0, s * c["microseconds"] <= 999999))


def _rebuild_ord(y, m, d, c):
    """ordinal of (y,m,d) + years/months (clamped) + days"""
    y2, m2 = cal.month_add(y + c["years"], m, c["months"])
    d2 = cal.clamp_day(y2, m2, d)
    return cal.ymd2ord(y2, m2, d2) + c["weeks"] * 7 + c["days"]


def dates(ctx, how, ylo, yhi):
    P = ctx.P
    y1 = ctx.year("ay", ylo, yhi); m1 = ctx.int("am", 1, 12); d1 = ctx.int("ad", 1, 31)
    y2 = ctx.year("by", ylo, yhi); m2 = ctx.int("bm", 1, 12); d2 = ctx.int("bd", 1, 31)
    ctx.assume(AND(d1 <= cal.days_in_month(y1, m1), d2 <= cal.days_in_month(y2, m2)))
    oa, ob = cal.ymd2ord(y1, m1, d1), cal.ymd2ord(y2, m2, d2)
    ctx.assume(oa <= ob)
    a, b = P.Date(y1, m1, d1), P.Date(y2, m2, d2)
    if how == "forward":
        r = b - a
        c = _components(r)
        _range_claims(ctx, c, 1)
        ctx.claim("in_months == 12*years + months", r.in_months() == 12 * c["years"] + c["months"])
        ctx.claim("in_years == years", r.in_years() == c["years"])
        ctx.claim("components rebuild the end (oracle)", _rebuild_ord(y1, m1, d1, c) == ob)
        ctx.reach("day borrow", d2 < d1)
        ctx.reach("start day clamped in the end month", AND(d1 > cal.days_in_month(y2, m2), c["days"] == 0, c["weeks"] == 0))
        ctx.reach("month borrow", AND(m2 < m1, y2 > y1))
        ctx.reach("end of February", AND(m2 == 2, d2 >= 28, d1 > 29))
        ctx.observe("c", list(c.values()))
    elif how == "rebuild_op":
        r = b - a
        e = a + r
        ctx.claim("a + (b - a) == b", cal.ymd2ord(e.year, e.month, e.day) == ob)
        ctx.observe("e", [e.year, e.month, e.day])
    elif how == "rebuild_add":
        r = b - a
        e = a.add(years=r.years, months=r.months, weeks=r.weeks, days=r.remaining_days)
        ctx.claim("a.add(**components) == b", cal.ymd2ord(e.year, e.month, e.day) == ob)
        ctx.observe("e", [e.year, e.month, e.day])
    else:  # reversed
        r = b - a
        q = a - b
        c, cq = _components(r), _components(q)
        ctx.claim("reversed interval reports the negated components", AND(*[cq[k] == -c[k] for k in c]))
        ctx.reach("inverted", oa < ob)
        ctx.observe("c", list(cq.values()))


def datetimes(ctx, kind, how, ylo, yhi, coarse=False):
    P = ctx.P
    ya, ma, da, ha, mia, sa, usa = sym_wall(ctx, "a", ylo, yhi)
    yb, mb, db, hb, mib, sb, usb = sym_wall(ctx, "b", ylo, yhi)
    if coarse:
        # whole hours only: the sub-hour borrow chain is decided by the `components` cases
        ctx.assume(AND(mia == 0, sa == 0, usa == 0, mib == 0, sb == 0, usb == 0))
        mia = sa = usa = mib = sb = usb = 0
    wa = cal.ymd2ord(ya, ma, da) * 86400 + cal.sod(ha, mia, sa)
    wb = cal.ymd2ord(yb, mb, db) * 86400 + cal.sod(hb, mib, sb)
    if kind == "naive":
        tz = None
    elif kind == "utc":
        tz = P.UTC
    elif kind == "fixed":
        tz = ctx.fixed_zone(sym_offset(ctx, "f"), "Verif/F")
    elif kind == "zone":
        # same named zone, both endpoints on the same side of its transition, end not ambiguous
        tz, Ts, offs = make_zone(ctx, "Verif/A", cal.ymd2ord(ya, ma, da))
        _, offa, nva = resolve_wall(wa, Ts, offs, False)
        _, offb, nvb = resolve_wall(wb, Ts, offs, False)
        ctx.assume(AND(nva == 1, nvb == 1, offa == offb))
    ctx.assume(wa * 1000000 + usa <= wb * 1000000 + usb)
    a = P.DateTime(ya, ma, da, ha, mia, sa, usa, tzinfo=tz)
    b = P.DateTime(yb, mb, db, hb, mib, sb, usb, tzinfo=tz)
    r = b - a
    c = _components(r)
    if how == "components":
        _range_claims(ctx, c, 1)
        ctx.claim("in_months == 12*years + months", r.in_months() == 12 * c["years"] + c["months"])
        tod = ((c["hours"] * 60 + c["minutes"]) * 60 + c["seconds"]) * 1000000 + c["microseconds"]
        exp = _rebuild_ord(ya, ma, da, c) * 86400 * 1000000 + (cal.sod(ha, mia, sa) * 1000000 + usa) + tod
        ctx.claim("components rebuild the end (oracle)", exp == wb * 1000000 + usb)
        ctx.reach("time-of-day borrow", cal.sod(hb, mib, sb) < cal.sod(ha, mia, sa))
        ctx.observe("c", list(c.values()))
    elif how == "rebuild_op":
        e = a + r
        ctx.claim("a + (b - a) == b", AND(wall_s(e) == wb, e.microsecond == usb))
        ctx.observe("e", fields(e))
    else:
        e = a.add(**c)
        ctx.claim("a.add(**components) == b", AND(wall_s(e) == wb, e.microsecond == usb))
        ctx.observe("e", fields(e))


def different_zones(ctx, bkind, ylo, yhi, akind="fixed", coarse=False):
    """endpoints in differently named zones are decomposed as the same two instants expressed in UTC"""
    P = ctx.P
    a, tzA, TsA, offsA, ua, usa = valid_source(ctx, akind, ylo, yhi, p="a")
    b, tzB, TsB, offsB, ub, usb = valid_source(ctx, bkind, ylo, yhi, p="b", key="Verif/B")
    if coarse:
        # quick tier: wall times on whole minutes (the offsets stay arbitrary to the second, so the shifted values are not)
        ctx.assume(AND(a.second == 0, a.microsecond == 0, b.second == 0, b.microsecond == 0))
    ctx.assume(ua * 1000000 + usa <= ub * 1000000 + usb)
    r = b - a
    c = _components(r)
    # the same two instants in UTC
    def utc_fields(u):
        o, s = divmod(u, 86400)
        return cal.ord2ymd(o), s
    (ya, ma, da), sa = utc_fields(ua)
    tod = ((c["hours"] * 60 + c["minutes"]) * 60 + c["seconds"]) * 1000000 + c["microseconds"]
    exp = _rebuild_ord(ya, ma, da, c) * 86400 * 1000000 + sa * 1000000 + usa + tod
    _range_claims(ctx, c, 1)
    ctx.claim("decomposed as the two instants in UTC", exp == ub * 1000000 + usb)
    ctx.reach("different zones")
    ctx.observe("c", list(c.values()))


def same_offset_zones(ctx, ylo, yhi):
    """two differently named zones that share one UTC offset: decomposed as the two instants in UTC"""
    P = ctx.P
    off = sym_offset(ctx, "f")
    tzA, tzB = ctx.fixed_zone(off, "Verif/One"), ctx.fixed_zone(off, "Verif/Two")
    ya, ma, da, ha, mia, sa, usa = sym_wall(ctx, "a", ylo, yhi)
    yb, mb, db, hb, mib, sb, usb = sym_wall(ctx, "b", ylo, yhi)
    ctx.assume(AND(sa == 0, usa == 0, sb == 0, usb == 0))
    wa = cal.ymd2ord(ya, ma, da) * 86400 + cal.sod(ha, mia, 0)
    wb = cal.ymd2ord(yb, mb, db) * 86400 + cal.sod(hb, mib, 0)
    ctx.assume(wa <= wb)
    a = P.DateTime(ya, ma, da, ha, mia, 0, 0, tzinfo=tzA)
    b = P.DateTime(yb, mb, db, hb, mib, 0, 0, tzinfo=tzB)
    r = b - a
    c = _components(r)
    ua = wa - off
    o, s = divmod(ua, 86400)
    (y0, m0, d0) = cal.ord2ymd(o)
    tod = ((c["hours"] * 60 + c["minutes"]) * 60 + c["seconds"]) * 1000000 + c["microseconds"]
    exp = _rebuild_ord(y0, m0, d0, c) * 86400 * 1000000 + s * 1000000 + tod
    _range_claims(ctx, c, 1)
    ctx.claim("decomposed as the two instants in UTC", exp == (wb - off) * 1000000)
    ctx.observe("c", list(c.values()))


def cases(tier):
    win = (1998, 2000)
    dw = (1996, 2000) if tier == "quick" else (1901, 2000)
    out = []
    for how in ("forward", "rebuild_op", "rebuild_add", "reversed"):
        out.append(dict(name=f"Date pairs {how}", fn=dates, params=dict(how=how, ylo=dw[0], yhi=dw[1]),
                        bounds=f"every ordered pair of Dates in years {dw[0]}..{dw[1]}"))
    for kind in (("naive", "utc", "zone") if tier == "quick" else ("naive", "utc", "fixed", "zone")):
        hows = ("components", "rebuild_op") if (tier != "quick" and kind == "utc") else ("components",)
        for how in hows:
            w = (2000, 2000) if kind == "zone" else win
            coarse = (kind == "zone" and tier == "quick")     # quick: zone pairs on whole hours (the borrow chain is decided on utc/naive)
            out.append(dict(name=f"DateTime pairs {kind} {how}" + (" (whole hours)" if coarse else ""), fn=datetimes,
                            params=dict(kind=kind, how=how, ylo=w[0], yhi=w[1], coarse=coarse),
                            bounds=f"every ordered pair of {kind} DateTimes (same offset) in years {w[0]}..{w[1]}, "
                                   + ("whole hours" if coarse else "any time of day")))
    if tier == "quick":
        for how in ("rebuild_op", "rebuild_add"):
            out.append(dict(name=f"DateTime pairs utc {how} (whole hours)", fn=datetimes,
                            params=dict(kind="utc", how=how, ylo=win[0], yhi=win[1], coarse=True),
                            bounds=f"every ordered pair of UTC DateTimes on whole hours in years {win[0]}..{win[1]}"))
    for ak, bk in ((("utc", "fixed"), ("fixed", "utc")) if tier == "quick" else
                   (("utc", "fixed"), ("fixed", "utc"), ("utc", "zone"))):
        out.append(dict(name=f"different zones {ak}/{bk}", fn=different_zones, params=dict(akind=ak, bkind=bk, ylo=2000, yhi=2000, coarse=(tier == "quick")),
                        bounds=f"every ordered pair ({ak} start, differently named {bk} end) in year 2000, any offsets"
                               + (", wall times on whole minutes" if tier == "quick" else "")))
    out.append(dict(name="different zones sharing one offset", fn=same_offset_zones, params=dict(ylo=2000, yhi=2000),
                    bounds="every ordered pair of whole-minute DateTimes in year 2000 in two differently named fixed zones with the same (any) offset"))
    return out
