"""C11 -- DateTime, Date and Time are drop-in replacements for the native classes (overridden/added methods)."""
from __future__ import annotations

from vf import cal
from vf.symx import AND, OR, NOT, IMPLIES, IFF, ite, PathAbort
from .common import (sym_wall, make_zone, resolve_wall, render, wall_s, off_seconds, exc_name, fields,
                     sym_offset, valid_source, native_triple, td_us, cut)

ID = "C11"
FUNCTIONS = [
    "pendulum.datetime:DateTime.date", "pendulum.datetime:DateTime.time", "pendulum.datetime:DateTime.replace",
    "pendulum.datetime:DateTime.astimezone", "pendulum.datetime:DateTime.__sub__", "pendulum.datetime:DateTime.__rsub__",
    "pendulum.datetime:DateTime.__add__", "pendulum.datetime:DateTime.__radd__", "pendulum.datetime:DateTime._cmp",
    "pendulum.datetime:DateTime.fromtimestamp", "pendulum.datetime:DateTime.utcfromtimestamp",
    "pendulum.datetime:DateTime.fromordinal", "pendulum.datetime:DateTime.combine", "pendulum.datetime:DateTime.instance",
    "pendulum.date:Date.replace", "pendulum.date:Date.fromordinal", "pendulum.time:Time.replace",
    "pendulum.mixins.default:FormattableMixin.__format__", "pendulum.mixins.default:FormattableMixin.for_json",
    "pendulum.mixins.default:FormattableMixin.__str__",
]
ASSUMPTIONS = [
    "only methods that pendulum overrides or adds are claimed: they are executed symbolically and compared with the "
    "model base class (CPython-3.12 semantics) applied to the same fields and tzinfo; every explored path is cross-run "
    "against the genuine C datetime with a synthetic TZif zone",
    "native counterparts carry a zoneinfo.ZoneInfo of the same contract and the same fold",
]
OUTSIDE = ["accessors inherited unchanged from C (isoformat, strftime, timetuple, toordinal, isocalendar, ctime, weekday ...): "
           "under any model they are the model compared with itself; they are exercised only by the concrete cross-run",
           "dst()/tzname() (zone data)", "years outside the stated window"]
REACH = ["operands in different zones", "same zone object in overlap (known finding region)", "native operand", "equal instants"]


def _native(ctx, x):
    return ctx.dt.datetime(x.year, x.month, x.day, x.hour, x.minute, x.second, x.microsecond, tzinfo=x.tzinfo, fold=x.fold)


def _no_breakdown(d1, d2):
    import sys
    return sys.modules["pendulum._helpers"].PreciseDiff(0, 0, 0, 0, 0, 0, 0, 0)


def compare(ctx, akind, bkind, same, ylo, yhi):
    P = ctx.P
    a, tzA, TsA, offsA, ua, usa = valid_source(ctx, akind, ylo, yhi, p="a", key="Verif/A")
    if same:
        y, m, d, h, mi, s, us = sym_wall(ctx, "b", ylo, yhi)
        w = cal.ymd2ord(y, m, d) * 86400 + cal.sod(h, mi, s)
        fold = ctx.int("bfold", 0, 1)
        _, off, nvalid = resolve_wall(w, TsA, offsA, fold == 1)
        ctx.assume(nvalid >= 1)
        ctx.assume(IMPLIES(nvalid == 1, fold == 0))
        b = P.DateTime(y, m, d, h, mi, s, us, tzinfo=tzA, fold=fold)
        ub, usb = w - off, us
    else:
        b, tzB, TsB, offsB, ub, usb = valid_source(ctx, bkind, ylo, yhi, p="b", key="Verif/B")
    ia, ib = ua * 1000000 + usa, ub * 1000000 + usb
    wa, wb = wall_s(a) * 1000000 + usa, wall_s(b) * 1000000 + usb
    na, nb = _native(ctx, a), _native(ctx, b)
    # the six comparisons agree with the native objects
    for name, op in (("<", lambda p, q: p < q), ("<=", lambda p, q: p <= q), (">", lambda p, q: p > q), (">=", lambda p, q: p >= q)):
        ctx.claim(f"{name} agrees with the native objects", IFF(op(a, b), op(na, nb)))
        ctx.claim(f"{name} mixed with a native operand", IFF(op(a, nb), op(na, nb)))
    ctx.claim("== agrees with the native objects", IFF(a == b, na == nb))
    ctx.claim("compares equal to its native counterpart", a == na)
    if ctx.mode == "real":
        # __hash__ is inherited from C: under the model it would be the model compared with itself; the concrete
        # cross-run on every explored path checks it on the genuine objects
        ctx.claim("hashes equal to its native counterpart", hash(a) == hash(na))
    # ordering between aware DateTimes is the ordering of their instants
    if same:
        # the standard library compares datetimes that share a tzinfo on their wall clocks (PEP 495): inside a
        # repeated hour that is not the order of the instants
        region = ctx.known_region("C11-same-tzinfo-wall-order", lambda: IFF(wa < wb, NOT(ia < ib)))
        ctx.claim("ordering is the ordering of the instants", OR(IFF(a < b, ia < ib), AND(region, IFF(a < b, wa < wb))))
        ctx.reach("same zone object in overlap (known finding region)", AND(wa < wb, ia > ib))
    else:
        ctx.claim("ordering is the ordering of the instants", IFF(a < b, ia < ib))
        ctx.reach("operands in different zones")
    ctx.reach("equal instants", ia == ib)
    ctx.observe("c", [ite(a < b, 1, 0), ite(a == b, 1, 0)])


def subtract(ctx, akind, bkind, how, ylo, yhi):
    with cut(ctx, "pendulum.interval", "precise_diff", _no_breakdown):
        P = ctx.P
        a, tzA, TsA, offsA, ua, usa = valid_source(ctx, akind, ylo, yhi, p="a", key="Verif/A")
        b, tzB, TsB, offsB, ub, usb = valid_source(ctx, bkind, ylo, yhi, p="b", key="Verif/B")
        na, nb = _native(ctx, a), _native(ctx, b)
        ref = td_us(ctx, nb - na)
        r = {"dt-dt": lambda: b - a, "dt-native": lambda: b - na, "native-dt": lambda: nb - a}[how]()
        ctx.claim(f"{how} == native - native", td_us(ctx, r) == ref)
        ctx.claim("returns an Interval", isinstance(r, P.Interval))
        ctx.reach("native operand", how != "dt-dt")
        ctx.observe("d", list(native_triple(ctx, r)))


def foreign_operand(ctx, ylo, yhi, side="left"):
    """DateTime - native aware datetime whose tzinfo is a datetime.timezone of any whole-second offset"""
    with cut(ctx, "pendulum.interval", "precise_diff", _no_breakdown):
        P, D = ctx.P, ctx.dt
        a, tzA, TsA, offsA, ua, usa = valid_source(ctx, "utc", ylo, yhi, p="a")
        y, m, d, h, mi, s, us = sym_wall(ctx, "b", ylo, yhi)
        off = sym_offset(ctx, "g")
        nb = D.datetime(y, m, d, h, mi, s, us, tzinfo=D.timezone(D.timedelta(seconds=off)))
        na = _native(ctx, a)
        ref = td_us(ctx, nb - na)
        if side == "left":
            r = nb - a
            ctx.claim("native(foreign tz) - DateTime == native - native", td_us(ctx, r) == ref)
        else:
            r = a - nb
            ctx.claim("DateTime - native(foreign tz) == native - native", td_us(ctx, r) == -ref)
        ctx.observe("d", list(native_triple(ctx, r)))


def returns(ctx, kind, ylo, yhi):
    """date(), time(), replace(), astimezone(), constructors: pendulum types with the native values"""
    P, D = ctx.P, ctx.dt
    x, tz, Ts, offs, u, us = valid_source(ctx, kind, ylo, yhi)
    n = _native(ctx, x)
    d, t = x.date(), x.time()
    ctx.claim("date() is a pendulum Date with the native value", AND(type(d) is P.Date, d.year == x.year, d.month == x.month, d.day == x.day, d == n.date()))
    ctx.claim("time() is a pendulum Time with the native value", AND(type(t) is P.Time, t.hour == x.hour, t.minute == x.minute,
                                                                    t.second == x.second, t.microsecond == x.microsecond, t == n.time()))
    tgt = ctx.fixed_zone(sym_offset(ctx, "g"), "Verif/G")
    z, nz = x.astimezone(tgt), n.astimezone(tgt)
    ctx.claim("astimezone() is a DateTime with the native fields", AND(type(z) is P.DateTime, *[p == q for p, q in zip(fields(z), fields(nz))]))
    ctx.claim("astimezone() == native", z == nz)
    o = cal.ymd2ord(x.year, x.month, x.day)
    fo = P.DateTime.fromordinal(o)
    ctx.claim("fromordinal", AND(type(fo) is P.DateTime, fo.year == x.year, fo.month == x.month, fo.day == x.day, fo.hour == 0))
    cb = P.DateTime.combine(n.date(), n.time(), None if x.tzinfo is None else x.tzinfo)
    ctx.claim("combine", AND(type(cb) is P.DateTime, *[p == q for p, q in zip(fields(cb), fields(x))]))
    ts = (u - cal.EPOCH_ORD * 86400)
    ft = P.DateTime.utcfromtimestamp(ts)
    ew, _, _ = u, 0, 0
    ctx.claim("utcfromtimestamp", AND(type(ft) is P.DateTime, wall_s(ft) == u, ft.microsecond == 0))
    ctx.observe("r", fields(z) + [d.year, t.hour])


def date_time_classes(ctx):
    P, D = ctx.P, ctx.dt
    y = ctx.year("y", 1, 9999); m = ctx.int("m", 1, 12); d = ctx.int("d", 1, 28)
    x = P.Date(y, m, d)
    n = D.date(y, m, d)
    ctx.claim("Date == native date", x == n)
    if ctx.mode == "real":
        ctx.claim("hash(Date) == hash(native)", hash(x) == hash(n))
    m2 = ctx.int("m2", 1, 12)
    r = x.replace(month=m2)
    ctx.claim("Date.replace returns a Date with the native value", AND(type(r) is P.Date, r == n.replace(month=m2)))
    fo = P.Date.fromordinal(cal.ymd2ord(y, m, d))
    ctx.claim("Date.fromordinal", AND(type(fo) is P.Date, fo == n))
    h = ctx.int("h", 0, 23); mi = ctx.int("mi", 0, 59); s = ctx.int("s", 0, 59); us = ctx.int("us", 0, 999999)
    t, nt = P.Time(h, mi, s, us), D.time(h, mi, s, us)
    ctx.claim("Time == native time", t == nt)
    h2 = ctx.int("h2", 0, 23)
    tr = t.replace(hour=h2)
    ctx.claim("Time.replace returns a Time with the native value", AND(type(tr) is P.Time, tr == nt.replace(hour=h2)))
    ctx.claim("str() is isoformat", str(x) == x.isoformat() if ctx.mode == "real" else True)
    ctx.observe("r", [r.year, r.month, r.day, tr.hour])


def cases(tier):
    win = (1998, 2000)
    zw = (2000, 2000)
    out = []
    out.append(dict(name="compare same zone object", fn=compare, params=dict(akind="zone", bkind="zone", same=True, ylo=zw[0], yhi=zw[1]),
                    bounds="every pair of valid DateTimes (both folds) sharing one zone object, year 2000"))
    for ak, bk in (("zone", "zone"), ("zone", "utc"), ("fixed", "fixed"), ("utc", "fixed")):
        w = zw if "zone" in (ak, bk) else win
        out.append(dict(name=f"compare {ak}/{bk}", fn=compare, params=dict(akind=ak, bkind=bk, same=False, ylo=w[0], yhi=w[1]),
                        bounds=f"every pair of valid DateTimes ({ak} x {bk}, different tzinfo objects) in years {w[0]}..{w[1]}"))
    for ak, bk in ((("zone", "utc"), ("fixed", "fixed")) if tier == "quick" else (("zone", "utc"), ("fixed", "fixed"), ("zone", "zone"))):
        for how in ("dt-dt", "dt-native", "native-dt"):
            w = zw if "zone" in (ak, bk) else win
            out.append(dict(name=f"subtract {how} {ak}/{bk}", fn=subtract, params=dict(akind=ak, bkind=bk, how=how, ylo=w[0], yhi=w[1]),
                            bounds=f"every pair of valid DateTimes ({ak} x {bk}) in years {w[0]}..{w[1]}"))
    for side in ("left", "right"):
      out.append(dict(name=f"subtract native operand with datetime.timezone ({side})", fn=foreign_operand, params=dict(ylo=win[0], yhi=win[1], side=side),
                    bounds=f"every UTC DateTime x every native datetime with a datetime.timezone of any offset in +-23:59:59, years {win[0]}..{win[1]}"))
    for kind in ("zone", "utc", "fixed"):
        w = zw if kind == "zone" else win
        out.append(dict(name=f"return types {kind}", fn=returns, params=dict(kind=kind, ylo=w[0], yhi=w[1]),
                        bounds=f"every valid {kind} DateTime in years {w[0]}..{w[1]}"))
    out.append(dict(name="Date and Time", fn=date_time_classes, bounds="every Date (day <= 28) and Time"))
    return out
