"""C04 -- calendar-unit arithmetic follows the wall clock with end-of-month clamping."""
from __future__ import annotations

from vf import cal
from vf.symx import AND, OR, NOT, IMPLIES, IFF, ite, PathAbort
from .common import (sym_wall, make_zone, resolve_wall, render, wall_s, off_seconds, exc_name, fields,
                     sym_offset, valid_source, mixed_amount)

ID = "C04"
FUNCTIONS = [
    "pendulum.helpers:add_duration", "pendulum.datetime:DateTime.add", "pendulum.datetime:DateTime.subtract",
    "pendulum.datetime:DateTime.create", "pendulum.tz.timezone:Timezone.convert",
    "pendulum.date:Date.add", "pendulum.date:Date.subtract", "pendulum.date:Date._add_timedelta",
    "pendulum.date:Date._subtract_timedelta", "pendulum.date:Date.__add__", "pendulum.date:Date.__sub__",
    "pendulum.datetime:DateTime._add_timedelta_", "pendulum.datetime:DateTime._subtract_timedelta",
    "pendulum.datetime:DateTime.__add__", "pendulum.datetime:DateTime.__sub__",
    "pendulum.duration:Duration.__new__", "pendulum.duration:Duration.__neg__", "pendulum._helpers:is_leap",
]
ASSUMPTIONS = [
    "zoneinfo.ZoneInfo replaced by its PEP 495 contract (one symbolic transition); C datetime by the CPython-3.12 model",
    "oracle: month index arithmetic (12y+m-1+delta), clamp to the target month's length, ordinal addition for "
    "weeks/days, wall-clock addition of time units, then the C02 normalisation oracle with the default fold",
    "Duration construction (float pipeline) under the interval-error float model",
]
OUTSIDE = ["amounts beyond the stated ranges", "results outside years 1..9999 (exception type only checked in C03)",
           "years outside the stated windows"]
REACH = ["clamped to a shorter month", "clamped to Feb 29", "month overflow crosses a year forward",
         "month underflow crosses a year backward", "lands in a gap", "lands in an overlap",
         "subtract on a DST day differs from elapsed time"]


def _shift(y, m, d, years, months, days):
    """oracle: (year, month, day) after years/months with clamping, then days"""
    y2, m2 = cal.month_add(y + years, m, months)
    d2 = cal.clamp_day(y2, m2, d)
    o = cal.ymd2ord(y2, m2, d2) + days
    return y2, m2, d2, o


def date_ops(ctx, how, ylo, yhi, Y, M, W, D):
    P = ctx.P
    y = ctx.year("y", ylo, yhi)
    m = ctx.int("m", 1, 12)
    d = ctx.int("d", 1, 31)
    ctx.assume(d <= cal.days_in_month(y, m))
    years = ctx.int("years", -Y, Y)
    months = ctx.int("months", -M, M)
    weeks = ctx.int("weeks", -W, W)
    days = ctx.int("days", -D, D)
    x = P.Date(y, m, d)
    sign = -1 if how in ("subtract", "sub_duration") else 1
    y2, m2, d2, o = _shift(y, m, d, sign * years, sign * months, sign * (7 * weeks + days))
    ctx.assume(AND(o >= 1 + 366, o <= cal.MAXORDINAL - 366, y2 >= 1, y2 <= 9999))
    if how == "add":
        r = x.add(years=years, months=months, weeks=weeks, days=days)
    elif how == "subtract":
        r = x.subtract(years=years, months=months, weeks=weeks, days=days)
    elif how == "add_negated":
        r = x.add(years=years, months=months, weeks=weeks, days=days)
        r2 = x.subtract(years=-years, months=-months, weeks=-weeks, days=-days)
        ctx.claim("add(-x) == subtract(x)", cal.ymd2ord(r2.year, r2.month, r2.day) == cal.ymd2ord(r.year, r.month, r.day))
    ctx.claim("type", type(r) is P.Date)
    # compared as ordinals (a bijection on valid dates): keeps both sides in linear form
    ctx.claim(f"{how}: years/months with clamping, then weeks/days", cal.ymd2ord(r.year, r.month, r.day) == o)
    ctx.reach("clamped to a shorter month", d2 < d)
    ctx.reach("clamped to Feb 29", AND(d2 < d, d2 == 29))
    ctx.reach("month overflow crosses a year forward", AND(months > 0, m + months > 12))
    ctx.reach("month underflow crosses a year backward", AND(months < 0, m + months < 1))
    ctx.observe("r", [r.year, r.month, r.day])


def datetime_ops(ctx, kind, how, ylo, yhi, M, D, hdays, shape=None):
    P = ctx.P
    x, tz, Ts, offs, u, us = valid_source(ctx, kind, ylo, yhi, shape=shape)
    y, m, d = x.year, x.month, x.day
    years = ctx.int("years", -1, 1)
    months = ctx.int("months", -M, M)
    days = ctx.int("days", -D, D)
    hours = mixed_amount(ctx, "hours", "h", hdays)
    ctx.assume(OR(years != 0, months != 0, days != 0))          # the calendar branch
    sign = -1 if how == "subtract" else 1
    y2, m2, d2, o = _shift(y, m, d, sign * years, sign * months, sign * days)
    w = o * 86400 + cal.sod(x.hour, x.minute, x.second) + sign * hours * 3600
    if how == "add":
        r = x.add(years=years, months=months, days=days, hours=hours)
    else:
        r = x.subtract(years=years, months=months, days=days, hours=hours)
    ctx.claim("type", type(r) is P.DateTime)
    if tz is None or not Ts:
        off = offs[0]
        ctx.claim(f"{how}: wall clock result", AND(wall_s(r) == w, r.microsecond == us))
        if tz is not None:
            ctx.claim("utc offset", off_seconds(r) == off)
    else:
        w_out, off_out, nvalid = resolve_wall(w, Ts, offs, True)
        ctx.claim(f"{how}: wall clock result normalised by the construction rules",
                  AND(wall_s(r) == w_out, r.microsecond == us))
        ctx.claim("utc offset", off_seconds(r) == off_out)
        ctx.reach("lands in a gap", nvalid == 0)
        ctx.reach("lands in an overlap", nvalid == 2)
    ctx.claim("timezone kept", r.tzinfo is tz)
    ctx.observe("r", fields(r) + [off_seconds(r), r.fold])


def duration_ops(ctx, kind, how, ylo, yhi, shape=None, full=False):
    """for every Duration d:  dt - d == dt + (-d) == dt.subtract(**components of d).
    Each expression is compared with the same oracle (the one subtract() is checked against in the
    `DateTime subtract` cases), so the three-way equality follows by transitivity."""
    P = ctx.P
    x, tz, Ts, offs, u, us = valid_source(ctx, kind, ylo, yhi, shape=shape)
    years = ctx.int("years", -1, 1) if full else 0
    months = ctx.int("months", -14, 14)
    weeks = ctx.int("weeks", -3, 3) if full else 0
    days = ctx.int("days", -40, 40)
    hours = mixed_amount(ctx, "hours", "h", 2)          # digit form: 24*D + H, either sign
    seconds = mixed_amount(ctx, "seconds", "s", 0) if full else 0
    comp = dict(years=years, months=months, weeks=weeks, days=days, hours=hours, seconds=seconds)
    dur = P.Duration(**comp)
    if how == "sub":
        r = x - dur
    elif how == "add_neg":
        r = x + (-dur)
    else:
        r = x.subtract(**comp)
    calendar = OR(years != 0, months != 0, weeks != 0, days != 0)
    y2, m2, d2, o = _shift(x.year, x.month, x.day, -years, -months, -(7 * weeks + days))
    w = o * 86400 + cal.sod(x.hour, x.minute, x.second) - hours * 3600 - seconds
    # calendar branch: wall clock + construction rules; otherwise exact elapsed time (C03)
    if Ts:
        w_out, off_out, nvalid = resolve_wall(w, Ts, offs, True)
        uu = u - hours * 3600 - seconds
        ew, eoff, efold = render(uu, Ts, offs)
        exp_w = ite(calendar, w_out, ew)
        exp_off = ite(calendar, off_out, eoff)
    else:
        exp_w, exp_off = w, offs[0]
    ctx.claim(f"{how}: same result as subtract() with the Duration's components",
              AND(wall_s(r) == exp_w, r.microsecond == us))
    if tz is not None:
        ctx.claim(f"{how}: utc offset", off_seconds(r) == exp_off)
    if Ts:
        el = (wall_s(r) - off_seconds(r)) - u
        nominal = -(((weeks * 7 + days) * 24 + hours) * 3600 + seconds)
        ctx.reach("subtract on a DST day differs from elapsed time", AND(years == 0, months == 0, el != nominal))
    ctx.observe("r", fields(r) + [off_seconds(r)])


def date_duration_ops(ctx, how, ylo, yhi, full=False):
    """date - d, date + (-d), date.subtract(**components): each against the oracle of `Date subtract`"""
    P = ctx.P
    y = ctx.year("y", ylo, yhi)
    m = ctx.int("m", 1, 12)
    d = ctx.int("d", 1, 31)
    ctx.assume(d <= cal.days_in_month(y, m))
    years = ctx.int("years", -1, 1)
    months = ctx.int("months", -14, 14)
    weeks = ctx.int("weeks", -3, 3) if full else 0
    days = ctx.int("days", -40, 40) if full else ctx.int("days", -13, 13)
    x = P.Date(y, m, d)
    dur = P.Duration(years=years, months=months, weeks=weeks, days=days)
    if how == "sub":
        r = x - dur
    elif how == "add_neg":
        r = x + (-dur)
    else:
        r = x.subtract(years=years, months=months, weeks=weeks, days=days)
    y2, m2, d2, o = _shift(y, m, d, -years, -months, -(7 * weeks + days))
    ctx.claim(f"{how}: same result as subtract() with the Duration's components", cal.ymd2ord(r.year, r.month, r.day) == o)
    ctx.observe("r", [r.year, r.month, r.day])


def cases(tier):
    out = []
    if tier == "quick":
        win, zw, Y, M, W, D = (1998, 2000), (2000, 2000), 3, 30, 60, 800
    else:
        win, zw, Y, M, W, D = (1901, 2000), (1998, 2000), 40, 50, 120, 800
    for how in ("add", "subtract", "add_negated"):
        out.append(dict(name=f"Date {how}", fn=date_ops, params=dict(how=how, ylo=win[0], yhi=win[1], Y=Y, M=M, W=W, D=D),
                        bounds=f"every Date in years {win[0]}..{win[1]} x years +-{Y} x months +-{M} x weeks +-{W} x days +-{D}"))
    for kind in (("naive", "utc", "zone") if tier == "quick" else ("naive", "utc", "fixed", "zone")):
        for how in ("add", "subtract"):
            for shape in (("gap", "overlap") if kind == "zone" else (None,)):
                w = zw if kind == "zone" else win
                out.append(dict(name=f"DateTime {how} {kind} {shape or ''}", fn=datetime_ops,
                                params=dict(kind=kind, how=how, ylo=w[0], yhi=w[1], M=14, D=40, hdays=2, shape=shape),
                                bounds=f"every valid DateTime ({kind}) in years {w[0]}..{w[1]} x years +-1 x months +-14 x "
                                       "days +-40 x hours of either sign up to 2 days (at least one calendar unit non-zero)"))
    for kind in ("utc", "zone"):
      for how in (("sub", "add_neg") if (tier == "quick" and kind == "zone") else ("sub", "add_neg", "subtract")):
        for shape in (("gap", "overlap") if kind == "zone" else (None,)):
            w = zw if kind == "zone" else win
            out.append(dict(name=f"Duration {how} {kind} {shape or ''}", fn=duration_ops,
                            params=dict(kind=kind, how=how, ylo=w[0], yhi=w[1], shape=shape, full=(tier != "quick")),
                            bounds=f"every valid DateTime ({kind}) in years {w[0]}..{w[1]} x every Duration(months +-14, "
                                   "days +-40, hours up to +-71" + (", years +-1, weeks +-3, seconds up to +-86399)" if tier != "quick" else ")")))
    for how in ("sub", "add_neg", "subtract"):
        out.append(dict(name=f"Date Duration {how}", fn=date_duration_ops, params=dict(how=how, ylo=win[0], yhi=win[1], full=(tier != "quick")),
                        bounds=f"every Date in years {win[0]}..{win[1]} x every Duration(years +-1, months +-14, "
                               + ("weeks +-3, days +-40)" if tier != "quick" else "days +-13)")))
    return out
