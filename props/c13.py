"""C13 -- ISO 8601 durations and intervals parse to their exact value (pure-Python parser)."""
from __future__ import annotations

from vf import cal
from vf.symx import AND, OR, NOT, IMPLIES, IFF, ite, PathAbort
from .common import exc_name, fields, off_seconds, wall_s, td_us, native_triple

ID = "C13"
RUST_CROSSCHECK = True
FUNCTIONS = [
    "pendulum.parsing.iso8601:_parse_iso8601_duration", "pendulum.parsing.iso8601:parse_iso8601",
    "pendulum.parsing:_parse_iso8601_interval", "pendulum.parsing:_parse", "pendulum.parser:_parse",
    "pendulum.duration:Duration.__new__", "pendulum.datetime:DateTime.add", "pendulum.datetime:DateTime.subtract",
    "pendulum:instance", "pendulum:interval",
]
ASSUMPTIONS = [
    "inputs are shapes with symbolic digits (see C07); every number is 1..k digits, k stated per case",
    "float steps (digits / 10**n * unit, Duration(hours=float) -> timedelta accumulation) under the interval-error "
    "float model; the oracle is exact integer arithmetic: sum of components in microseconds, fraction = digits/10^n",
    "PENDULUM_EXTENSIONS=0; the compiled parser is cross-run concretely on every explored path's model",
]
OUTSIDE = ["the Rust duration parser (text loop, f64): concrete cross-run only", "numbers longer than the stated digit counts",
           "fractions on W/D/H/M other than 1-3 digits (exact) and 5, 7-10 digits (4-10 thorough; one-digit whole part; rounded to the "
           "nearest microsecond, an exact tie may go either way) -- seconds fractions are covered to 9 digits"]
REACH = ["fraction on days", "fraction on seconds beyond microseconds", "all components present", "weeks form",
         "rejected out of order", "too large rejected"]
UNIT_US = dict(W=7 * 86400 * 10**6, D=86400 * 10**6, H=3600 * 10**6, M=60 * 10**6, S=10**6)


def _num(ctx, name, n):
    from vf import shapes
    s = ctx.digits(name, n)
    return s, (shapes.digits_value(s) if ctx.mode == "sym" else int(s))


def duration_shape(ctx, comps, nd, frac_on, nfrac, fsep):
    """comps: string over 'YMDHmS' / 'W' (m = minutes) in the order written; frac_on: one of them or None"""
    P = ctx.P
    text, date_part = "P", True
    vals = {}
    frac_num = None
    for c in comps:
        if c in "HmS" and date_part:
            text += "T"
            date_part = False
        s, v = _num(ctx, "n" + c, nd)
        text += s
        vals[c] = v
        if c == frac_on:
            fs, fv = _num(ctx, "f", nfrac)
            text += fsep + fs
            frac_num = fv
        text += {"m": "M"}.get(c, c)
    st, r = exc_name(lambda: P.parse(text))
    if st != "ok":
        # only numbers too large to represent may be rejected, and then with a ValueError
        whole = 0
        for c, v in vals.items():
            whole = whole + v * {"Y": 365 * 86400, "M": 30 * 86400, "W": 7 * 86400, "D": 86400, "H": 3600, "m": 60, "S": 1}[c]
        ctx.claim("rejected only when the value does not fit a timedelta", whole >= 999999999 * 86400)
        ctx.claim("with a ValueError", r in ("ParserError", "ValueError"))
        ctx.observe("exc", "ValueError")
        return
    ctx.claim("type", isinstance(r, P.Duration))
    ctx.claim("years and months as given", AND(r.years == vals.get("Y", 0), r.months == vals.get("M", 0)))
    exact = 0
    for c, v in vals.items():
        if c in "YM":
            continue
        exact = exact + v * UNIT_US["M" if c == "m" else c]
    rest = td_us(ctx, r) - (r.years * 365 + r.months * 30) * 86400 * 10**6
    if frac_on:
        unit = UNIT_US["M" if frac_on == "m" else frac_on]
        num = frac_num * unit                  # fraction = frac_num / 10^nfrac units
        den = 10 ** nfrac
        q, rem = divmod(num, den)
        if isinstance(rem, int) and rem == 0 or nfrac <= 3 and frac_on != "S":
            ctx.claim("remaining length is the exact value", rest == exact + q)
        else:
            # rounded to the microsecond (half up, as the compiled parser does)
            # an exact tie (…5 us) may go either way on a non-second unit: the property does not fix a tie rule and the
            # float pipeline (timedelta) rounds half to even
            up = rest == exact + q + ite(2 * rem >= den, 1, 0)
            ctx.claim("remaining length is the exact value rounded to the microsecond",
                      up if frac_on == "S" else OR(up, AND(2 * rem == den, rest == exact + q)))
        ctx.reach("fraction on days", frac_on == "D")
        ctx.reach("fraction on seconds beyond microseconds", AND(frac_on == "S", nfrac > 6))
    else:
        ctx.claim("remaining length is the exact value", rest == exact)
    ctx.reach("all components present", len(comps) == 6)
    ctx.reach("weeks form", "W" in comps)
    ctx.observe("r", [r.years, r.months] + list(native_triple(ctx, r)))


def rejected(ctx, text_tmpl, why):
    P = ctx.P
    from vf import shapes
    text = ""
    i = 0
    digs = ""
    for ch in text_tmpl:
        if ch == "#":
            dch = ctx.digits(f"d{i}_", 1)
            text += dch
            digs += dch
            i += 1
        else:
            text += ch
    st, r = exc_name(lambda: P.parse(text))
    if "large" in why:
        # numbers too large to represent are rejected rather than wrapped: either the exact value or a ValueError
        n = shapes.digits_value(digs) if ctx.mode == "sym" else int(digs)
        unit = UNIT_US["D" if text_tmpl.endswith("D") else "S"]
        if st == "ok":
            ctx.claim("accepted values are represented exactly (never wrapped)", td_us(ctx, r) == n * unit)
            ctx.observe("r", list(native_triple(ctx, r)))
        else:
            ctx.claim("with a ValueError", r in ("ParserError", "ValueError"))
            ctx.reach("too large rejected")
            ctx.observe("exc", "ValueError")
        return
    ctx.claim(f"rejected ({why})", st == "exc")
    if st == "exc":
        ctx.claim("with a ValueError", r in ("ParserError", "ValueError"))
        ctx.reach("rejected out of order", "order" in why)
        ctx.observe("exc", "ValueError")
    else:
        ctx.observe("r", str(type(r).__name__))


def interval_shape(ctx, form):
    P = ctx.P
    from vf import shapes
    val = (lambda s: shapes.digits_value(s)) if ctx.mode == "sym" else int
    def dt(p):
        Y = "2000"; M = ctx.digits(p + "M", 2); D = ctx.digits(p + "D", 2)
        H = ctx.digits(p + "h", 2); I = ctx.digits(p + "i", 2)
        y, m, d, h, i = val(Y), val(M), val(D), val(H), val(I)
        ctx.assume(AND(m >= 1, m <= 12, d >= 1, d <= cal.days_in_month(y, ite(AND(m >= 1, m <= 12), m, 1)), h <= 23, i <= 59))
        return f"{Y}-{M}-{D}T{H}:{I}:00Z", (y, m, d, h, i)
    def dur():
        mo = ctx.digits("uM", 1); dd = ctx.digits("uD", 2); hh = ctx.digits("uH", 2)
        return f"P{mo}M{dd}DT{hh}H", (val(mo), val(dd), val(hh))
    if form == "start/end":
        a, fa = dt("a"); b, fb = dt("b")
        r = P.parse(a + "/" + b)
        ctx.claim("type", isinstance(r, P.Interval))
        ctx.claim("start", AND(*[x == y for x, y in zip(fields(r.start)[:5], fa)]))
        ctx.claim("end", AND(*[x == y for x, y in zip(fields(r.end)[:5], fb)]))
        ctx.observe("r", fields(r.start) + fields(r.end))
        return
    if form == "start/duration":
        a, fa = dt("a"); du, (mo, dd, hh) = dur()
        r = P.parse(a + "/" + du)
        base, other, sign = r.start, r.end, 1
    else:
        du, (mo, dd, hh) = dur(); a, fa = dt("a")
        r = P.parse(du + "/" + a)
        base, other, sign = r.end, r.start, -1
    ctx.claim("type", isinstance(r, P.Interval))
    ctx.claim("given endpoint", AND(*[x == y for x, y in zip(fields(base)[:5], fa)]))
    y, m, d, h, i = fa
    y2, m2 = cal.month_add(y, m, sign * mo)
    d2 = cal.clamp_day(y2, m2, d)
    w = (cal.ymd2ord(y2, m2, d2) + sign * dd) * 86400 + (h + sign * hh) * 3600 + i * 60
    ctx.claim("missing endpoint is start.add(duration) / end.subtract(duration)", AND(wall_s(other) == w, off_seconds(other) == 0))
    ctx.observe("r", fields(r.start) + fields(r.end))


def interval_tz(ctx, form, shape):
    """offset-less endpoint + tz=<zone with a transition>: the missing endpoint is start.add(duration) /
    end.subtract(duration) in that zone (calendar and clock units in one wall-clock step, construction rules)"""
    from vf import shapes
    from .common import make_zone, resolve_wall
    P = ctx.P
    val = (lambda s: shapes.digits_value(s)) if ctx.mode == "sym" else int
    M = ctx.digits("aM", 2); D = ctx.digits("aD", 2); H = ctx.digits("ah", 2)
    m, d, h = val(M), val(D), val(H)
    ctx.assume(AND(m >= 1, m <= 12, d >= 1, d <= cal.days_in_month(2000, ite(AND(m >= 1, m <= 12), m, 1)), h <= 23))
    dd = ctx.digits("uD", 1); hh = ctx.digits("uH", 2)
    nd, nh = val(dd), val(hh)
    ctx.assume(nd >= 1)                       # a calendar unit is present
    o = cal.ymd2ord(2000, m, d)
    tz, Ts, offs = make_zone(ctx, "Verif/A", o, max_days=12, shape=shape)
    w = o * 86400 + h * 3600
    _, _, nv = resolve_wall(w, Ts, offs, True)
    ctx.assume(nv == 1)                       # the given endpoint is an ordinary local time
    point = f"2000-{M}-{D}T{H}:00:00"
    dur = f"P{dd}DT{hh}H"
    if form == "start/duration":
        r = P.parse(point + "/" + dur, tz=tz)
        given, other, sign = r.start, r.end, 1
    else:
        r = P.parse(dur + "/" + point, tz=tz)
        given, other, sign = r.end, r.start, -1
    ctx.claim("type", isinstance(r, P.Interval))
    ctx.claim("given endpoint", AND(wall_s(given) == w, given.tzinfo is tz))
    w2 = w + sign * (nd * 86400 + nh * 3600)
    ew, eoff, _ = resolve_wall(w2, Ts, offs, True)
    ctx.claim("missing endpoint is add()/subtract() of the duration in the zone", AND(wall_s(other) == ew, off_seconds(other) == eoff))
    ctx.observe("r", fields(r.start) + fields(r.end) + [off_seconds(r.start), off_seconds(r.end)])


def cases(tier):
    out = []
    nd = 2 if tier == "quick" else 3
    def add(comps, frac_on=None, nfrac=0, fsep=".", nd_=None):
        nm = f"P {comps}" + (f" frac {frac_on}{fsep}{'f' * nfrac}" if frac_on else "") + f" ({nd_ or nd} digits)"
        out.append(dict(name=nm, fn=duration_shape, params=dict(comps=comps, nd=nd_ or nd, frac_on=frac_on, nfrac=nfrac, fsep=fsep),
                        bounds=f"all digit assignments: components {comps} of {nd_ or nd} digits each"
                               + (f", a {nfrac}-digit fraction on {frac_on}" if frac_on else "")))
    add("YMDHmS")
    add("YMDHmS", nd_=1)
    for c in ("Y", "M", "D", "H", "m", "S", "W", "YD", "MS", "Hm", "DH"):
        add(c, nd_=3 if tier == "quick" else 10)
    for c, on in (("D", "D"), ("DH", "H"), ("Hm", "m"), ("HmS", "S"), ("W", "W"), ("YMD", "D"), ("S", "S")):
        for nf, sep in ((1, "."), (2, ","), (3, ".")):
            add(c, on, nf, sep)
    for nf in (6, 7, 9):
        add("S", "S", nf, ".")
    # long fractions on a non-second unit: exact value k * 0.6 us (minutes), never within 0.1 us of a half, so the
    # float pipeline must round to the nearest microsecond
    add("m", "m", 8, ".", nd_=1)
    add("H", "H", 10, ".", nd_=1)
    add("D", "D", 10, ".", nd_=1)
    add("W", "W", 10, ".", nd_=1)
    add("Hm", "m", 8, ",", nd_=1)
    for on in ("m", "H", "D", "W"):                 # the widths in between: every non-tie rounds to the nearest microsecond
        for nf in ((5, 7) if tier == "quick" else (4, 5, 6, 7, 9)):
            if not (on == "m" and nf >= 9):      # k * 0.06 us can be an exact tie, where the float model cannot predict the side
                add(on, on, nf, ".", nd_=1)
    for tmpl, why in (("P#D#M", "out of order"), ("PT#S#M", "out of order"), ("PT#M#H", "out of order"), ("P#.#Y", "fractional years"),
                      ("P#.#M", "fractional months"), ("P###########D", "too large"), ("PT##############S", "too large")):
        out.append(dict(name=f"rejected {tmpl}", fn=rejected, params=dict(text_tmpl=tmpl, why=why),
                        bounds=f"all digit assignments of {tmpl!r} (# = any digit)"))
    for form in ("start/duration", "duration/end"):
        for shape in ("gap", "overlap"):
            out.append(dict(name=f"interval {form} tz=zone {shape}", fn=interval_tz, params=dict(form=form, shape=shape),
                            bounds="all digit assignments of 2000-MM-DDThh:00:00 with PnDTnnH, tz = a zone with one transition within +-12 days"))
    for form in ("start/end", "start/duration", "duration/end"):
        out.append(dict(name=f"interval {form}", fn=interval_shape, params=dict(form=form),
                        bounds="all digit assignments of 2000-MM-DDThh:mm:00Z endpoints and PnMnnDTnnH durations"))
    return out
