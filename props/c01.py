"""C01 -- timezone conversion preserves the instant and matches the zone's rendering."""
from __future__ import annotations

from vf import cal
from vf.symx import AND, OR, NOT, IMPLIES, IFF, ite, PathAbort
from .common import (sym_wall, make_zone, resolve_wall, render, wall_s, off_seconds, exc_name, fields,
                     sym_offset, valid_source, sym_delta_seconds)

ID = "C01"
FUNCTIONS = [
    "pendulum.datetime:DateTime.in_timezone", "pendulum.datetime:DateTime.in_tz", "pendulum.datetime:DateTime.astimezone",
    "pendulum.datetime:DateTime.__add__", "pendulum.datetime:DateTime.replace", "pendulum.datetime:DateTime.create",
    "pendulum.datetime:DateTime.instance", "pendulum.datetime:DateTime.int_timestamp",
    "pendulum.tz.timezone:Timezone.convert", "pendulum.tz.timezone:FixedTimezone.convert",
    "pendulum.tz.timezone:FixedTimezone.fromutc", "pendulum.tz.timezone:FixedTimezone.utcoffset",
    "pendulum:from_timestamp", "pendulum:instance", "pendulum:_safe_timezone", "pendulum:timezone",
    "pendulum.tz:fixed_timezone",
]
ASSUMPTIONS = [
    "zoneinfo.ZoneInfo (source and target) replaced by its PEP 495 contract with one symbolic transition each "
    "(thorough: two for the target); the tz database itself is environment",
    "C datetime replaced by the CPython-3.12 model; traceback.extract_stack hides model frames as C frames are hidden",
    "foreign tzinfo kinds are stubs with their documented shape: pytz-like (zone, localize, per-instance fixed "
    "utcoffset, fold always 0), dateutil-like (utcoffset honours fold, no key), datetime.timezone, zoneinfo.ZoneInfo",
    "pendulum.tz._tz_cache replaced by an equality-compared mapping (same semantics as hashing, forks on symbolic keys)",
]
OUTSIDE = ["timestamp()/from_timestamp() with non-integral floats other than the six concrete dyadic values of the from_timestamp <ts> cases (symbolic floats are not modelled)", "A->B->C chains (composition of two proven steps; "
           "each step's result is a valid value of its zone)", "the ~598 zone names as data"]
REACH = ["source in overlap second pass", "target in overlap second pass", "target before transition",
         "target after transition", "same zone object", "pytz-like second pass (known finding region)"]


def _target(ctx, tkind, anchor, ntrans=1):
    P = ctx.P
    if tkind == "utc":
        return P.UTC, [], [0]
    if tkind == "fixed":
        off = sym_offset(ctx, "g")
        return ctx.fixed_zone(off, "Verif/G"), [], [off]
    tz, Ts, offs = make_zone(ctx, "Verif/B", anchor, ntrans)
    return tz, Ts, offs


def _expect(ctx, r, tz, Ts, offs, u, us, label):
    ew, eoff, efold = render(u, Ts, offs)
    ctx.claim(f"{label}: same instant, rendered by the target zone", AND(wall_s(r) == ew, r.microsecond == us))
    ctx.claim(f"{label}: utc offset of the target zone", off_seconds(r) == eoff)
    ctx.claim(f"{label}: reports the requested timezone", r.tzinfo is tz)
    if Ts:
        ctx.claim(f"{label}: fold", IFF(r.fold == 1, efold))
        ctx.reach("target in overlap second pass", efold)
        ctx.reach("target before transition", u < Ts[0])
        ctx.reach("target after transition", u >= Ts[0])


def convert(ctx, skind, tkind, method, ylo, yhi, ntrans=1):
    x, tzA, TsA, offsA, u, us = valid_source(ctx, skind, ylo, yhi)
    anchor = cal.ymd2ord(x.year, x.month, x.day)
    tzB, TsB, offsB = _target(ctx, tkind, anchor, ntrans)
    if method == "in_timezone":
        r = x.in_timezone(tzB)
    elif method == "in_tz":
        r = x.in_tz(tzB)
    elif method == "astimezone":
        r = x.astimezone(tzB)
    else:
        r = tzB.convert(x)
    ctx.claim("type", type(r) is ctx.P.DateTime)
    _expect(ctx, r, tzB, TsB, offsB, u, us, method)
    if TsA:
        ctx.reach("source in overlap second pass", x.fold == 1)
    ctx.observe("r", fields(r) + [off_seconds(r), r.fold])


def same_zone(ctx, ylo, yhi):
    x, tzA, TsA, offsA, u, us = valid_source(ctx, "zone", ylo, yhi)
    r = x.in_timezone(tzA)
    _expect(ctx, r, tzA, TsA, offsA, u, us, "same zone")
    ctx.reach("same zone object")
    ctx.observe("r", fields(r) + [off_seconds(r), r.fold])


def timestamp(ctx, tkind, ylo, yhi):
    P = ctx.P
    y, m, d, h, mi, s, us = sym_wall(ctx, "t", ylo, yhi)
    anchor = cal.ymd2ord(y, m, d)
    u = anchor * 86400 + cal.sod(h, mi, s)
    t = u - cal.EPOCH_ORD * 86400
    tz, Ts, offs = _target(ctx, tkind, anchor)
    r = P.from_timestamp(t, tz)
    _expect(ctx, r, tz, Ts, offs, u, 0, "from_timestamp")
    ctx.claim("int_timestamp inverts from_timestamp", r.int_timestamp == t)
    ts = r.timestamp()
    ctx.claim("timestamp() inverts from_timestamp", ts == t)
    ctx.observe("r", fields(r) + [off_seconds(r), r.fold, r.int_timestamp])


def timestamp_frac(ctx, tkind, ts):
    """a concrete dyadic (exactly representable) fractional timestamp, either sign, into a symbolic target zone"""
    import math
    P = ctx.P
    fl = math.floor(ts)
    us = int((ts - fl) * 1000000)            # exact: ts is a multiple of 2^-6 with |ts| < 2^40
    u = cal.EPOCH_ORD * 86400 + fl
    anchor = cal.EPOCH_ORD + fl // 86400
    tz, Ts, offs = _target(ctx, tkind, anchor)
    r = P.from_timestamp(ts, tz)
    _expect(ctx, r, tz, Ts, offs, u, us, "from_timestamp")
    ctx.claim("timestamp() inverts from_timestamp", r.timestamp() == ts)
    ctx.observe("r", fields(r) + [off_seconds(r), r.fold, r.int_timestamp])


def _foreign(ctx, kind, key, Ts, offs, off_now):
    """a foreign tzinfo object of the given kind describing the same zone"""
    D = ctx.dt
    if kind == "zoneinfo":
        return ctx.native_zone(key, Ts, offs)
    if kind == "timezone":
        return D.timezone(D.timedelta(seconds=off_now))
    if kind == "pytz":
        class PytzLike(D.tzinfo):
            zone = key

            def __init__(self, off):
                self._off = D.timedelta(seconds=off)

            def localize(self, dt, is_dst=False):
                raise NotImplementedError

            def utcoffset(self, dt):
                return self._off

            def dst(self, dt):
                return D.timedelta(0)

            def tzname(self, dt):
                return "LMT"
        return PytzLike(off_now)
    if kind == "dateutil":
        zone = ctx.native_zone(key + "n", Ts, offs)

        class DateutilLike(D.tzinfo):
            def utcoffset(self, dt):
                return None if dt is None else zone.utcoffset(dt.replace(tzinfo=zone))

            def dst(self, dt):
                return D.timedelta(0)

            def tzname(self, dt):
                return "XXX"
        return DateutilLike()
    raise AssertionError(kind)


def instance(ctx, kind, ylo, yhi):
    """pendulum.instance() of an aware *native* datetime carrying a foreign tzinfo"""
    P, D = ctx.P, ctx.dt
    y, m, d, h, mi, s, us = sym_wall(ctx, "x", ylo, yhi)
    anchor = cal.ymd2ord(y, m, d)
    w = anchor * 86400 + cal.sod(h, mi, s)
    tzP, Ts, offs = make_zone(ctx, "Verif/A", anchor)        # the pendulum zone of the same name exists
    fold = ctx.int("fold", 0, 1)
    w_out, off, nvalid = resolve_wall(w, Ts, offs, fold == 1)
    ctx.assume(nvalid >= 1)
    ctx.assume(IMPLIES(nvalid == 1, fold == 0))
    u = w - off
    foreign = _foreign(ctx, kind, "Verif/A", Ts, offs, off)
    # pytz datetimes never carry fold: the occurrence is encoded in the tzinfo instance
    nfold = 0 if kind in ("pytz", "timezone") else fold
    native = D.datetime(y, m, d, h, mi, s, us, tzinfo=foreign, fold=nfold)
    r = P.instance(native)
    ctx.claim("type", type(r) is P.DateTime)
    second_pass = AND(nvalid == 2, fold == 1)
    if kind == "pytz":
        known = ctx.known_region("C01-pytz-second-pass", lambda: second_pass)
        ctx.reach("pytz-like second pass (known finding region)", second_pass)
        ok = AND(wall_s(r) - off_seconds(r) == u, r.microsecond == us)
        recorded = AND(wall_s(r) == w, off_seconds(r) == offs[0], r.microsecond == us)
        ctx.claim("instance(): same instant", OR(ok, AND(known, recorded)))
        ctx.claim("instance(): zone of the same name", r.timezone_name == "Verif/A")
    elif kind == "zoneinfo":
        ctx.claim("instance(): same instant", AND(wall_s(r) - off_seconds(r) == u, r.microsecond == us))
        ctx.claim("instance(): offset", off_seconds(r) == off)
        ctx.claim("instance(): zone of the same name", r.timezone_name == "Verif/A")
    else:
        # fixed-offset sources: the result is a fixed-offset DateTime at that offset
        ctx.claim("instance(): same instant", AND(wall_s(r) - off_seconds(r) == u, r.microsecond == us))
        ctx.claim("instance(): offset", off_seconds(r) == off)
    ctx.observe("r", fields(r) + [off_seconds(r), r.fold])


def cases(tier):
    out = []
    win = (1998, 2000) if tier == "quick" else (1801, 2000)
    combos = [("zone", "zone"), ("zone", "utc"), ("zone", "fixed"), ("utc", "zone"), ("fixed", "zone"),
              ("fixed", "fixed"), ("utc", "fixed")]
    for sk, tk in combos:
        methods = ("in_timezone",) if tier == "quick" and (sk, tk) != ("zone", "zone") else (
            "in_timezone", "astimezone", "convert") + (("in_tz",) if tier != "quick" else ())
        for meth in methods:
            w = (2000, 2000) if (tier == "quick" and sk == "zone" and tk == "zone") else win
            out.append(dict(name=f"{meth} {sk}->{tk}", fn=convert,
                            params=dict(skind=sk, tkind=tk, method=meth, ylo=w[0], yhi=w[1]),
                            bounds=f"every valid DateTime in years {w[0]}..{w[1]} (both folds) in a source {sk} converted to a "
                                   f"target {tk}; zones: one transition anywhere within +-400 days, offsets any second in +-23:59:59"))
    if tier != "quick":
        out.append(dict(name="in_timezone zone->zone2", fn=convert,
                        params=dict(skind="zone", tkind="zone", method="in_timezone", ylo=2000, yhi=2000, ntrans=2),
                        bounds="as zone->zone with a two-transition target, year 2000"))
    out.append(dict(name="same zone", fn=same_zone, params=dict(ylo=win[0], yhi=win[1]),
                    bounds=f"every valid DateTime in years {win[0]}..{win[1]} converted to its own zone"))
    for tk in ("zone", "utc", "fixed"):
        out.append(dict(name=f"from_timestamp {tk}", fn=timestamp, params=dict(tkind=tk, ylo=win[0], yhi=win[1]),
                        bounds=f"every integral timestamp in years {win[0]}..{win[1]} x target {tk}"))
    for ts in (-1.5, -0.25, -86400.75, -946684799.984375, 0.5, 951782400.015625):
        for tk in (("zone", "fixed") if tier == "quick" else ("zone", "utc", "fixed")):
            out.append(dict(name=f"from_timestamp {ts!r} {tk}", fn=timestamp_frac, params=dict(tkind=tk, ts=ts),
                            bounds=f"the fractional timestamp {ts!r} (exact in binary) x every target {tk}"))
    for kind in ("zoneinfo", "timezone", "pytz", "dateutil"):
        out.append(dict(name=f"instance {kind}", fn=instance, params=dict(kind=kind, ylo=win[0], yhi=win[1]),
                        bounds=f"every valid aware native datetime in years {win[0]}..{win[1]} (both folds) whose tzinfo is a "
                               f"{kind}-kind object describing a one-transition zone"))
    return out
