"""C07 -- ISO 8601 / RFC 3339 date and time strings parse to the value they denote (pure-Python parser)."""
from __future__ import annotations

from vf import cal
from vf.symx import AND, OR, NOT, IMPLIES, IFF, ite, PathAbort
from .common import exc_name, fields, off_seconds, wall_s, sym_offset, sym_wall

ID = "C07"
FUNCTIONS = [
    "pendulum.parser:parse", "pendulum.parser:_parse", "pendulum.parsing:parse", "pendulum.parsing:_parse",
    "pendulum.parsing:_normalize", "pendulum.parsing.iso8601:parse_iso8601", "pendulum.parsing.iso8601:_get_iso_8601_week",
    "pendulum.parsing.iso8601:_parse_iso8601_duration", "pendulum.parsing:_parse_common", "pendulum:datetime", "pendulum:date",
    "pendulum:time", "pendulum.tz.timezone:FixedTimezone.__init__", "pendulum.datetime:DateTime.to_iso8601_string",
    "pendulum.datetime:DateTime.to_rfc3339_string", "pendulum.datetime:DateTime.__str__",
]
RUST_CROSSCHECK = True
ASSUMPTIONS = [
    "inputs are *shapes*: strings whose digit positions hold symbolic digits (private-use code points bound to solver "
    "atoms); the regex engine (C) runs on them with every digit class of the repository's patterns extended by that "
    "range (all patterns involved are digit-agnostic, checked at load time); int()/str formatting go through the shims",
    "strptime('%Y-%j') (used for week dates) is modelled by its contract; C datetime by the CPython-3.12 model",
    "PENDULUM_EXTENSIONS=0 (the pure-Python parser); the rust kernels ordinal_to_ymd / iso_to_ymd are covered "
    "separately when the rsir cases are present",
]
OUTSIDE = ["the Rust recursive-descent text parser (default backend): no engine in this sandbox gets through its string "
           "handling; it is only cross-run concretely on every explored path's model (evidence: rust_crosscheck)",
           "shapes not listed in the evidence bounds", "well-formedness is assumed for offsets (hh<=23, mm<=59)"]
REACH = ["ordinal last day of year", "ordinal last day of a month", "week 53", "week date in previous year",
         "invalid date rejected", "fraction truncated", "negative offset"]

DATE_FORMS = ["YYYY-MM-DD", "YYYYMMDD", "YYYY-DDD", "YYYYDDD", "YYYY-Www", "YYYYWww", "YYYY-Www-D", "YYYYWwwD", "YYYY-MM", "YYYY"]
TIME_FORMS = ["hh:mm:ss", "hhmmss", "hh:mm", "hhmm", "hh"]
TZ_FORMS = [None, "Z", "+hh", "-hh", "+hhmm", "-hh:mm", "+hh:mm"]


def build_date(ctx, form, century=None):
    """-> (text, (valid, y, m, d) oracle)"""
    if century is None:
        Y = ctx.digits("Y", 4)
    else:
        Y = century + ctx.digits("Y", 2)       # calendrical week/ordinal arithmetic: one century per case
    from vf import shapes
    val = (lambda s: shapes.digits_value(s)) if ctx.mode == "sym" else int
    y = val(Y)
    if form in ("YYYY-MM-DD", "YYYYMMDD", "YYYY-MM"):
        M = ctx.digits("M", 2)
        m = val(M)
        if form == "YYYY-MM":
            txt, d = f"{Y}-{M}", 1
        else:
            D = ctx.digits("D", 2)
            d = val(D)
            txt = f"{Y}-{M}-{D}" if "-" in form else f"{Y}{M}{D}"
        valid = AND(y >= 1, m >= 1, m <= 12, d >= 1, d <= cal.days_in_month(y, ite(AND(m >= 1, m <= 12), m, 1)))
        return txt, (valid, y, m, d, None)
    if form == "YYYY":
        return Y, (y >= 1, y, 1, 1, None)
    if form in ("YYYY-DDD", "YYYYDDD"):
        J = ctx.digits("J", 3)
        j = val(J)
        txt = f"{Y}-{J}" if "-" in form else f"{Y}{J}"
        valid = AND(y >= 1, j >= 1, j <= cal.days_in_year(y))
        ctx.reach("ordinal last day of year", AND(valid, j == cal.days_in_year(y)))
        ctx.reach("ordinal last day of a month", AND(valid, j == 59))
        return txt, (valid, y, None, None, cal.ymd2ord(y, 1, 1) + j - 1)
    W = ctx.digits("W", 2)
    w = val(W)
    if form.endswith("D"):
        Dd = ctx.digits("K", 1)
        k = val(Dd)
        txt = f"{Y}-W{W}-{Dd}" if "-" in form else f"{Y}W{W}{Dd}"
    else:
        k = 1
        txt = f"{Y}-W{W}" if "-" in form else f"{Y}W{W}"
    long_ = cal.isocalendar(ite(y >= 1, y, 1), 12, 28)[1] == 53
    valid = AND(y >= 1, w >= 1, OR(w <= 52, AND(w == 53, long_)), k >= 1, k <= 7)
    o = cal.iso_week1_monday(ite(y >= 1, y, 1)) + (w - 1) * 7 + (k - 1)
    valid = AND(valid, o >= 1, o <= cal.MAXORDINAL)
    ctx.reach("week 53", AND(valid, w == 53))
    ctx.reach("week date in previous year", AND(valid, o < cal.ymd2ord(ite(y >= 1, y, 1), 1, 1)))
    return txt, (valid, y, None, None, o)


def build_time(ctx, form, nfrac, fsep):
    from vf import shapes
    val = (lambda s: shapes.digits_value(s)) if ctx.mode == "sym" else int
    H = ctx.digits("h", 2)
    h, mi, s = val(H), 0, 0
    txt = H
    if form in ("hh:mm:ss", "hhmmss", "hh:mm", "hhmm"):
        Mi = ctx.digits("i", 2)
        mi = val(Mi)
        txt += (":" if ":" in form else "") + Mi
    if form in ("hh:mm:ss", "hhmmss"):
        S = ctx.digits("s", 2)
        s = val(S)
        txt += (":" if ":" in form else "") + S
    us = 0
    if nfrac:
        F = ctx.digits("f", nfrac)
        txt += fsep + F
        us = val((F + "000000")[:6])
        ctx.reach("fraction truncated", nfrac > 6)
    valid = AND(h <= 23, mi <= 59, s <= 59)
    return txt, (valid, h, mi, s, us)


def build_tz(ctx, form):
    from vf import shapes
    val = (lambda s: shapes.digits_value(s)) if ctx.mode == "sym" else int
    if form is None:
        return "", None
    if form == "Z":
        return "Z", 0
    sign = -1 if form[0] == "-" else 1
    A = ctx.digits("a", 2)
    oh, om = val(A), 0
    txt = form[0] + A
    if "mm" in form:
        B = ctx.digits("b", 2)
        om = val(B)
        txt += (":" if ":" in form else "") + B
    ctx.assume(AND(oh <= 23, om <= 59))        # well-formed offsets
    ctx.reach("negative offset", sign < 0)
    return txt, sign * (oh * 60 + om) * 60


def parse_shape(ctx, dform, tform, nfrac, fsep, tzform, sep, exact, century=None):
    P = ctx.P
    dtxt, dor = build_date(ctx, dform, century) if dform else ("", None)
    ttxt, tor = build_time(ctx, tform, nfrac, fsep) if tform else ("", None)
    ztxt, off = build_tz(ctx, tzform) if tform else ("", None)
    text = dtxt + (sep if (dform and tform) else "") + ttxt + ztxt
    kw = dict(exact=True) if exact else {}
    st, r = exc_name(lambda: P.parse(text, **kw))
    valid = AND(dor[0] if dor else True, tor[0] if tor else True)
    ctx.claim("rejected with ValueError exactly when the denoted value is impossible",
              (NOT(valid) if st == "exc" else valid))
    if st == "exc":
        ctx.claim("the exception is a ValueError (ParserError)", r in ("ParserError", "ValueError"))
        ctx.reach("invalid date rejected")
        ctx.observe("exc", "ValueError")
        return
    if dor:
        exp_ord = dor[4] if dor[4] is not None else cal.ymd2ord(dor[1], dor[2], dor[3])
    if dform and not tform:
        ctx.claim("type", type(r) is (P.Date if exact else P.DateTime))
        ctx.claim("date", cal.ymd2ord(r.year, r.month, r.day) == exp_ord)
        if not exact:
            ctx.claim("midnight UTC", AND(r.hour == 0, r.minute == 0, r.second == 0, r.microsecond == 0, off_seconds(r) == 0))
        ctx.observe("r", [r.year, r.month, r.day])
        return
    if tform and not dform:
        ctx.claim("type", type(r) is P.Time)
        ctx.claim("time", AND(r.hour == tor[1], r.minute == tor[2], r.second == tor[3], r.microsecond == tor[4]))
        ctx.observe("r", [r.hour, r.minute, r.second, r.microsecond])
        return
    ctx.claim("type", type(r) is P.DateTime)
    ctx.claim("date", cal.ymd2ord(r.year, r.month, r.day) == exp_ord)
    ctx.claim("time", AND(r.hour == tor[1], r.minute == tor[2], r.second == tor[3], r.microsecond == tor[4]))
    ctx.claim("utc offset", off_seconds(r) == (off if off is not None else 0))
    ctx.observe("r", fields(r) + [off_seconds(r)])


def inverse(ctx, how, kind):
    """parse() inverts isoformat()/str()/to_iso8601_string()/to_rfc3339_string()"""
    P = ctx.P
    y, m, d, h, mi, s, us = sym_wall(ctx, "x", 1000, 9999)
    if kind == "utc":
        tz, off = P.UTC, 0
    else:
        oh = ctx.int("oh", -23, 23)
        om = ctx.int("om", 0, 59)
        off = (oh * 60 + ite(oh < 0, -om, om)) * 60
        tz = ctx.fixed_zone(off)
    if how in ("atom", "w3c"):
        us = 0
    x = P.DateTime(y, m, d, h, mi, s, us, tzinfo=tz)
    text = {"isoformat": lambda: x.isoformat(), "str": lambda: str(x), "iso8601": lambda: x.to_iso8601_string(),
            "rfc3339": lambda: x.to_rfc3339_string(), "atom": lambda: x.to_atom_string(),
            "w3c": lambda: x.to_w3c_string()}[how]()
    r = P.parse(text)
    ctx.claim("type", type(r) is P.DateTime)
    ctx.claim(f"parse inverts {how}", AND(*[a == b for a, b in zip(fields(r), fields(x))]))
    ctx.claim("same offset", off_seconds(r) == off)
    ctx.observe("t", [text, fields(r), off_seconds(r)])


def cases(tier):
    out = []
    def add(dform, tform, nfrac=0, fsep=".", tzform=None, sep="T", exact=True):
        cents = [None]
        if dform and ("W" in dform or "DDD" in dform):
            # every century 16..99 for the date-only forms in the thorough tier; combined forms: 19YY and 20YY
            cents = ["19", "20"] if (tier == "quick" or tform) else [str(c) for c in range(16, 100)]
        for cent in cents:
            nm = f"{dform or ''}{sep if dform and tform else ''}{tform or ''}" + (f"{fsep}{'f' * nfrac}" if nfrac else "") + (tzform or "") + ("" if exact else " (default options)") + (f" [{cent}YY]" if cent else "")
            out.append(dict(name=nm, fn=parse_shape, params=dict(dform=dform, tform=tform, nfrac=nfrac, fsep=fsep, tzform=tzform, sep=sep, exact=exact, century=cent),
                            bounds=f"all digit assignments of the shape {nm!r} (every digit position 0-9" + (f", years {cent}00..{cent}99)" if cent else ")")))
    if tier == "quick":
        for df in DATE_FORMS:
            add(df, None)
        add("YYYY-MM-DD", None, exact=False)
        for tf in ("hh:mm:ss", "hh:mm"):
            add(None, tf)
        add(None, "hh:mm:ss", 3, ".")
        # every alternative of every factor at least once, combined with the calendar/ordinal/week date forms
        combos = [("YYYY-MM-DD", "hh:mm:ss", 6, ".", "Z", "T"), ("YYYY-MM-DD", "hh:mm:ss", 0, ".", "+hh:mm", " "),
                  ("YYYYMMDD", "hhmmss", 3, ",", "-hhmm", "T"), ("YYYY-DDD", "hh:mm", 0, ".", "+hh", "T"),
                  ("YYYYDDD", "hhmm", 0, ".", None, "T"), ("YYYY-Www-D", "hh:mm:ss", 9, ".", "-hh:mm", "T"),
                  ("YYYYWwwD", "hh", 0, ".", "Z", "T"), ("YYYY-MM-DD", "hh:mm:ss", 1, ",", "-hh", "T"),
                  ("YYYY-MM-DD", "hh:mm:ss", 7, ".", None, "T")]
        for c in combos:
            add(c[0], c[1], c[2], c[3], c[4], c[5])
    else:
        for df in DATE_FORMS:
            add(df, None)
            add(df, None, exact=False)
        for tf in ("hh:mm:ss", "hh:mm"):
            for nf in (0, 1, 6, 9):
                add(None, tf if nf == 0 or tf == "hh:mm:ss" else "hh:mm:ss", nf)
        for df in DATE_FORMS[:8]:
            for tf in TIME_FORMS:
                # ISO 8601 does not mix formats: extended dates (with '-') go with extended times (with ':'), basic with basic
                if ("-" in df) != (":" in tf) and tf != "hh":
                    continue
                for nf, fs in ((0, "."), (3, ","), (9, ".")):
                    if nf and tf in ("hh", "hh:mm", "hhmm"):
                        continue
                    for tzf in ((None, "Z", "+hh:mm", "-hh") if "-" in df else (None, "Z", "-hhmm", "+hh")):
                        add(df, tf, nf, fs, tzf, "T")
                add(df, tf, 0, ".", "+hh", " ")
    for how in ("isoformat", "str", "iso8601", "rfc3339", "atom", "w3c"):
        for kind in ("utc", "fixed"):
            out.append(dict(name=f"parse({how}) {kind}", fn=inverse, params=dict(how=how, kind=kind),
                            bounds=f"every DateTime in years 1000..9999 in {kind} (whole-minute offsets within +-23:59)"))
    return out
