"""C02 -- wall-clock construction is normalised by the documented DST rules."""
from __future__ import annotations

from vf import cal
from vf.symx import AND, OR, NOT, IMPLIES, IFF, ite, PathAbort
from .common import (sym_wall, make_zone, resolve_wall, render, wall_s, off_seconds, exc_name, fields,
                     sym_offset)

ID = "C02"
FUNCTIONS = [
    "pendulum:datetime", "pendulum:local", "pendulum:naive", "pendulum:_safe_timezone",
    "pendulum.datetime:DateTime.create", "pendulum.datetime:DateTime.set", "pendulum.datetime:DateTime.on",
    "pendulum.datetime:DateTime.at", "pendulum.datetime:DateTime.replace", "pendulum.datetime:DateTime.in_timezone",
    "pendulum.datetime:DateTime.astimezone", "pendulum.datetime:DateTime.__add__",
    "pendulum.tz.timezone:Timezone.convert", "pendulum.tz.timezone:Timezone.datetime",
    "pendulum.tz.timezone:FixedTimezone.convert", "pendulum.tz.timezone:FixedTimezone.datetime",
    "pendulum.tz.exceptions:NonExistingTime.__init__", "pendulum.tz.exceptions:AmbiguousTime.__init__",
]
ASSUMPTIONS = [
    "zoneinfo.ZoneInfo replaced by its PEP 495 contract (vf/mzoneinfo.py): one or two transitions at symbolic "
    "UTC instants between symbolic second-granular offsets in +-23:59:59; consecutive transitions are further "
    "apart than the offset changes (as in every tz database zone)",
    "C datetime replaced by the CPython-3.12 model (vf/mdatetime.py); every explored path is cross-run on the "
    "real C datetime/zoneinfo with a synthetic TZif zone built from the path's model",
    "the system local zone (pendulum.local) is stubbed through pendulum.set_local_timezone()",
]
OUTSIDE = [ "tz database contents (only the contract is used)",
           "zones with more than two transitions near the wall time", "years outside the stated window"]
REACH = ["unique", "repeated fold=1", "repeated fold=0", "skipped fold=1", "skipped fold=0",
         "NonExistingTime", "AmbiguousTime", "gap crosses midnight"]


def _build(ctx, route, tz, y, m, d, h, mi, s, us, fold, raise_):
    P = ctx.P
    if route == "datetime":
        return P.datetime(y, m, d, h, mi, s, us, tz=tz, fold=fold, raise_on_unknown_times=raise_)
    if route == "create":
        return P.DateTime.create(y, m, d, h, mi, s, us, tz=tz, fold=fold, raise_on_unknown_times=raise_)
    if route == "local":
        P.set_local_timezone(tz)
        try:
            return P.local(y, m, d, h, mi, s, us)            # default fold
        finally:
            P.set_local_timezone(None)
    if route == "convert":
        n = ctx.dt.datetime(y, m, d, h, mi, s, us, fold=fold)
        return tz.convert(n, raise_on_unknown_times=raise_)
    if route == "tz.datetime":
        return tz.datetime(y, m, d, h, mi, s, us)             # fold=1 by definition
    if route == "parse":
        text = (format(y, "04d") + "-" + format(m, "02d") + "-" + format(d, "02d") + "T" + format(h, "02d") + ":"
                + format(mi, "02d") + ":" + format(s, "02d") + "." + format(us, "06d"))
        return P.parse(text, tz=tz)                           # offset-less string: default fold
    if route == "naive.in_timezone":
        return P.naive(y, m, d, h, mi, s, us).in_timezone(tz)  # replace(fold=1) then convert
    # routes that start from an existing aware value and funnel into create() with its fold
    base = P.DateTime(2000, 6, 15, 12, 0, 0, 0, tzinfo=tz, fold=fold)
    if route == "set":
        return base.set(y, m, d, h, mi, s, us)
    if route == "on.at":
        return base.on(y, m, d).at(h, mi, s, us)
    if route == "replace":
        return base.replace(y, m, d, h, mi, s, us)
    raise AssertionError(route)


DEFAULT_FOLD_ROUTES = ("local", "tz.datetime", "naive.in_timezone", "parse")


def construct(ctx, route, ntrans, ylo, yhi, raising):
    y, m, d, h, mi, s, us = sym_wall(ctx, "w", ylo, yhi)
    anchor = cal.ymd2ord(y, m, d)
    tz, Ts, offs = make_zone(ctx, "Verif/A", anchor, ntrans)
    if route in DEFAULT_FOLD_ROUTES:
        fold = 1
    else:
        fold = ctx.int("fold", 0, 1)
    fold1 = fold == 1
    w = anchor * 86400 + cal.sod(h, mi, s)
    w_out, off_out, nvalid = resolve_wall(w, Ts, offs, fold1)
    if route == "on.at":
        # on() then at(): the intermediate value (new date, old time 12:00) is normalised first and
        # its fold is what at() forwards; the claim below is therefore only made when that intermediate
        # wall time exists exactly once (otherwise the rule applies twice, which is not this claim)
        w_mid = anchor * 86400 + 12 * 3600
        _, _, nv_mid = resolve_wall(w_mid, Ts, offs, fold1)
        ctx.assume(nv_mid == 1)
    st, r = exc_name(_build, ctx, route, tz, y, m, d, h, mi, s, us, fold, raising)
    if raising:
        ctx.claim("raises NonExistingTime exactly for skipped",
                  IFF(nvalid == 0, AND(st == "exc", r == "NonExistingTime")) if st == "exc" and r == "NonExistingTime"
                  else NOT(nvalid == 0))
        ctx.claim("raises AmbiguousTime exactly for repeated",
                  IFF(nvalid == 2, AND(st == "exc", r == "AmbiguousTime")) if st == "exc" and r == "AmbiguousTime"
                  else NOT(nvalid == 2))
        if st == "exc":
            ctx.claim("no other exception", r in ("NonExistingTime", "AmbiguousTime"))
            ctx.reach(r)
            ctx.observe("exc", r)
            return
    else:
        ctx.claim("no exception", st == "ok")
        if st != "ok":
            ctx.observe("exc", r)
            return
    ctx.claim("wall time", wall_s(r) == w_out)
    ctx.claim("microsecond kept", r.microsecond == us)
    ctx.claim("utc offset", off_seconds(r) == off_out)
    ctx.claim("timezone kept", r.tzinfo is tz)
    native = route in ("convert", "tz.datetime")       # Timezone.convert()/datetime() work on native datetimes
    ctx.claim("result type", type(r) is (ctx.dt.datetime if native else ctx.P.DateTime))
    # every returned value is a valid local time: it survives a round trip through UTC
    u = w_out - off_out
    rw, roff, rfold = render(u, Ts, offs)
    ctx.claim("result is a valid local time", AND(rw == w_out, roff == off_out))
    utc = r.astimezone(ctx.P.UTC) if native else r.in_timezone(ctx.P.UTC)
    ctx.claim("UTC instant", AND(wall_s(utc) == u, utc.microsecond == us, off_seconds(utc) == 0))
    back = utc.astimezone(tz) if native else utc.in_timezone(tz)
    ctx.claim("round trip through UTC", AND(wall_s(back) == w_out, back.microsecond == us,
                                            off_seconds(back) == off_out))
    ctx.reach("unique", nvalid == 1)
    ctx.reach("repeated fold=1", AND(nvalid == 2, fold1))
    ctx.reach("repeated fold=0", AND(nvalid == 2, NOT(fold1)))
    ctx.reach("skipped fold=1", AND(nvalid == 0, fold1))
    ctx.reach("skipped fold=0", AND(nvalid == 0, NOT(fold1)))
    ctx.reach("gap crosses midnight", AND(nvalid == 0, w_out // 86400 != w // 86400))
    ctx.observe("r", fields(r) + [off_seconds(r), r.fold])


def fixed(ctx, route, ylo, yhi):
    y, m, d, h, mi, s, us = sym_wall(ctx, "w", ylo, yhi)
    off = sym_offset(ctx, "f")
    ctx.assume(AND(off > -86400, off < 86400))
    tz = ctx.fixed_zone(off, "Verif/F")
    fold = ctx.int("fold", 0, 1)
    raising = ctx.bool("raise")
    st, r = exc_name(_build, ctx, route, tz, y, m, d, h, mi, s, us, fold, raising)
    ctx.claim("no exception", st == "ok")
    if st != "ok":
        ctx.observe("exc", r)
        return
    ctx.claim("exact wall time", AND(r.year == y, r.month == m, r.day == d, r.hour == h, r.minute == mi,
                                     r.second == s, r.microsecond == us))
    ctx.claim("utc offset", off_seconds(r) == off)
    ctx.claim("timezone kept", r.tzinfo is tz)
    ctx.observe("r", fields(r) + [off_seconds(r), r.fold])


ROUTES = ("datetime", "create", "local", "convert", "tz.datetime", "naive.in_timezone", "set", "on.at", "replace", "parse")


def cases(tier):
    out = []
    if tier == "quick":
        win, nts = (1998, 2000), (1,)
    else:
        win, nts = (1801, 2000), (1, 2)
    for nt in nts:
        for route in ROUTES:
            w = win if nt == 1 else (1998, 2000)
            out.append(dict(
                name=f"{route} zone{nt}", fn=construct,
                params=dict(route=route, ntrans=nt, ylo=w[0], yhi=w[1], raising=False),
                bounds=(f"every wall time in years {w[0]}..{w[1]} x fold x every zone with {nt} transition(s) "
                        "anywhere within +-400 days of the wall date, offsets any second in +-23:59:59")))
        for route in ("datetime", "create", "convert"):
            w = win if nt == 1 else (1998, 2000)
            out.append(dict(
                name=f"{route} raise zone{nt}", fn=construct,
                params=dict(route=route, ntrans=nt, ylo=w[0], yhi=w[1], raising=True),
                bounds=f"as above with raise_on_unknown_times=True, years {w[0]}..{w[1]}"))
    for route in ("datetime", "convert", "set"):
        out.append(dict(name=f"{route} fixed", fn=fixed, params=dict(route=route, ylo=win[0], yhi=win[1]),
                        bounds=f"every wall time in years {win[0]}..{win[1]} x every fixed offset in +-23:59:59 x fold x raise flag"))
    return out
