"""Model of the C `datetime` module (CPython 3.12 semantics), polymorphic over int / SInt.

The model is the *environment* contract for pendulum's classes, which subclass these types.
Private state lives in `_vf_*` names so it cannot collide with pendulum attributes
(`Duration._days` ...).  Results of inherited arithmetic on a subclass are built the way the
C code builds them: `type(self)(y, m, d, H, M, S, us, tzinfo)`.
"""
from __future__ import annotations

import sys as _sys
import time as _time
import datetime as _REAL          # the genuine module (this file is imported before the swap)

from . import cal as _cal
from .symx import (SInt, SBool, SFloat, ite, table, eng, AND, OR, NOT, Unmodelled, is_sym as _sym,
                   PathAbort)

MINYEAR = 1
MAXYEAR = 9999
_MAXORDINAL = 3652059

_days_in_month = _cal.days_in_month
_ymd2ord = _cal.ymd2ord
_ord2ymd = _cal.ord2ymd


_USE_FIELD_STEPS = False     # measured: nested field-level steps are slower for z3 than independent ord->ymd towers


def _lemma_valid(t, _enabled=False):
    """Hand the solver a proven fact about model-produced dates (kernel obligations 'model lemma' of the
    C15 check: succ/pred/ord2ymd results are valid dates): saves it from re-deriving `day <= days_in_month`
    through nested ite terms every time the repository code asks."""
    if _enabled and _sym(*t):
        eng().assume(AND(t[2] >= 1, t[2] <= _days_in_month(t[0], t[1]), t[1] >= 1, t[1] <= 12))


def _check(c, exc, msg):
    if not c:
        raise exc(msg)


def _isint(x):
    return isinstance(x, (int, SInt)) and not isinstance(x, bool) or isinstance(x, bool)


def _fmt(v, spec):
    return format(v, spec)


# ------------------------------------------------------------------------------ timedelta
class timedelta:
    def __new__(cls, days=0, seconds=0, microseconds=0, milliseconds=0, minutes=0, hours=0, weeks=0):
        args = (days, seconds, microseconds, milliseconds, minutes, hours, weeks)
        for a in args:
            if not isinstance(a, (int, float, SInt, SFloat, SBool)):
                raise TypeError(f"unsupported type for timedelta component: {type(a).__name__}")
        if any(isinstance(x, (float, SFloat)) for x in args):
            if not _sym(*args):
                r = _REAL.timedelta(*args)
                d, s, us = r.days, r.seconds, r.microseconds
            else:
                d, s, us = _float_components(*args)
        else:
            us = microseconds + milliseconds * 1000
            s = seconds + minutes * 60 + hours * 3600
            d = days + weeks * 7
            q, us = divmod(us, 1000000)
            s = s + q
            q, s = divmod(s, 86400)
            d = d + q
        _check(AND(d >= -999999999, d <= 999999999), OverflowError,
               "days=%s; must have magnitude <= 999999999" % (d if isinstance(d, int) else "?"))
        self = object.__new__(cls)
        self._vf_d, self._vf_s, self._vf_us = d, s, us
        return self

    days = property(lambda s: s._vf_d)
    seconds = property(lambda s: s._vf_s)
    microseconds = property(lambda s: s._vf_us)

    def _us(self):
        return (self._vf_d * 86400 + self._vf_s) * 1000000 + self._vf_us

    @classmethod
    def _from_us(cls, us):
        return cls(0, 0, us)

    def total_seconds(self):
        u = self._us()
        if isinstance(u, int):
            return u / 10**6
        return SFloat.ratio(u, 10**6)        # C: int / int true division, correctly rounded

    def __neg__(self):
        return timedelta(-self._vf_d, -self._vf_s, -self._vf_us)

    def __pos__(self):
        return self

    def __abs__(self):
        if self._vf_d < 0:
            return -self
        return self

    def __add__(self, o):
        if isinstance(o, timedelta):
            return timedelta(self._vf_d + o._vf_d, self._vf_s + o._vf_s, self._vf_us + o._vf_us)
        return NotImplemented

    __radd__ = __add__

    def __sub__(self, o):
        if isinstance(o, timedelta):
            return timedelta(self._vf_d - o._vf_d, self._vf_s - o._vf_s, self._vf_us - o._vf_us)
        return NotImplemented

    def __rsub__(self, o):
        if isinstance(o, timedelta):
            return -self + o
        return NotImplemented

    def __mul__(self, o):
        if isinstance(o, (int, SInt)):
            return timedelta(0, 0, self._us() * o)
        if isinstance(o, (float, SFloat)):
            a, b = o.as_integer_ratio()
            return timedelta(0, 0, _divide_and_round(self._us() * a, b))
        return NotImplemented

    __rmul__ = __mul__

    def __floordiv__(self, o):
        if isinstance(o, timedelta):
            return self._us() // o._us()
        if isinstance(o, (int, SInt)):
            return timedelta(0, 0, self._us() // o)
        return NotImplemented

    def __truediv__(self, o):
        if isinstance(o, timedelta):
            return self._us() / o._us()
        if isinstance(o, (int, SInt)):
            return timedelta(0, 0, _divide_and_round(self._us(), o))
        if isinstance(o, (float, SFloat)):
            a, b = o.as_integer_ratio()
            return timedelta(0, 0, _divide_and_round(b * self._us(), a))
        return NotImplemented

    def __mod__(self, o):
        if isinstance(o, timedelta):
            return timedelta(0, 0, self._us() % o._us())
        return NotImplemented

    def __divmod__(self, o):
        if isinstance(o, timedelta):
            q, r = divmod(self._us(), o._us())
            return q, timedelta(0, 0, r)
        return NotImplemented

    def _cmpv(self, o, op):
        if isinstance(o, timedelta):
            return op(self._us(), o._us())
        return NotImplemented

    def __eq__(self, o): return self._cmpv(o, lambda a, b: a == b)
    def __ne__(self, o):
        r = self._cmpv(o, lambda a, b: a == b)
        return r if r is NotImplemented else NOT(r)
    def __lt__(self, o): return self._cmpv(o, lambda a, b: a < b)
    def __gt__(self, o): return self._cmpv(o, lambda a, b: a > b)
    def __le__(self, o): return self._cmpv(o, lambda a, b: a <= b)
    def __ge__(self, o): return self._cmpv(o, lambda a, b: a >= b)

    def __bool__(self):
        r = self._us() != 0
        return r if isinstance(r, bool) else bool(r)

    def __hash__(self):
        return hash((self._vf_d, self._vf_s, self._vf_us)) if not _sym(self._vf_d, self._vf_s, self._vf_us) \
            else hash(self._us())

    def __reduce__(self):
        return (self.__class__, (self._vf_d, self._vf_s, self._vf_us))

    def __repr__(self):
        return f"datetime.timedelta(days={self._vf_d}, seconds={self._vf_s}, microseconds={self._vf_us})"

    def __str__(self):
        if _sym(self._vf_d, self._vf_s, self._vf_us):
            raise Unmodelled("str(timedelta) symbolic")
        return str(_REAL.timedelta(self._vf_d, self._vf_s, self._vf_us))


def _divide_and_round(a, b):
    """round-half-even integer division (Objects/longobject.c divmod_near)"""
    q, r = divmod(a, b)
    r2 = r * 2
    gt = (r2 > b) if b > 0 else (r2 < b)
    if OR(gt, AND(r2 == b, q % 2 == 1)):
        q = q + 1
    return q


def _float_components(days, seconds, microseconds, milliseconds, minutes, hours, weeks):
    """C delta_new's accumulation (accum()) for float arguments: per argument the integral part is exact,
    the fractional part times the unit factor is one float multiplication, truncated, and what is left
    over is summed and finally rounded half-even to microseconds.  Under the error model the final
    rounding admits any integer within 1/2 of the (error-bounded) leftover."""
    total = 0                 # exact integer microseconds
    leftover = SFloat(0, 1)
    have_left = False
    for val, factor in ((days, 86400 * 10**6), (seconds, 10**6), (microseconds, 1), (milliseconds, 1000),
                        (minutes, 60 * 10**6), (hours, 3600 * 10**6), (weeks, 7 * 86400 * 10**6)):
        if isinstance(val, float):
            val = SFloat.of(val)
        if isinstance(val, SFloat):
            if val.d == 1 and val.exact():
                total = total + val.n * factor
                continue
            ip = val.trunc()
            frac = val - SFloat.of(ip)
            frac = SFloat(frac.n, frac.d, val.elo, val.ehi, val.zint)      # x - trunc(x) is exact
            total = total + ip * factor
            t = frac * factor
            ip2 = t.trunc()
            rest = t - SFloat.of(ip2)
            rest = SFloat(rest.n, rest.d, t.elo, t.ehi, t.zint)
            total = total + ip2
            leftover = (leftover + rest) if have_left else rest
            have_left = True
        else:
            total = total + val * factor
    if have_left:
        total = total + round(leftover)
    d, rem = divmod(total, 86400 * 10**6)
    s, us = divmod(rem, 10**6)
    return d, s, us


timedelta.min = timedelta(-999999999)
timedelta.max = timedelta(days=999999999, hours=23, minutes=59, seconds=59, microseconds=999999)
timedelta.resolution = timedelta(microseconds=1)


# ------------------------------------------------------------------------------ tzinfo
class tzinfo:
    def utcoffset(self, dt):
        raise NotImplementedError("a tzinfo subclass must implement utcoffset()")

    def dst(self, dt):
        raise NotImplementedError("a tzinfo subclass must implement dst()")

    def tzname(self, dt):
        raise NotImplementedError("a tzinfo subclass must implement tzname()")

    def fromutc(self, dt):
        if not isinstance(dt, datetime):
            raise TypeError("fromutc() requires a datetime argument")
        if dt.tzinfo is not self:
            raise ValueError("dt.tzinfo is not self")
        dtoff = dt.utcoffset()
        if dtoff is None:
            raise ValueError("fromutc() requires a non-None utcoffset() result")
        dtdst = dt.dst()
        if dtdst is None:
            raise ValueError("fromutc() requires a non-None dst() result")
        delta = dtoff - dtdst
        if delta:
            dt = dt + delta
            dtdst = dt.dst()
        return dt + dtdst

    def __reduce__(self):
        getinitargs = getattr(self, "__getinitargs__", None)
        args = getinitargs() if getinitargs else ()
        return (self.__class__, args, getattr(self, "__dict__", None) or None)


# ------------------------------------------------------------------------------ date
class date:
    def __new__(cls, year, month=None, day=None):
        if not _cal.memo_valid(year, month, day):
            _check(AND(year >= MINYEAR, year <= MAXYEAR), ValueError, "year is out of range")
            _check(AND(month >= 1, month <= 12), ValueError, "month must be in 1..12")
            _check(AND(day >= 1, day <= _days_in_month(year, month)), ValueError,
                   "day is out of range for month")
        self = object.__new__(cls)
        self._vf_y, self._vf_m, self._vf_dd = year, month, day
        return self

    year = property(lambda s: s._vf_y)
    month = property(lambda s: s._vf_m)
    day = property(lambda s: s._vf_dd)

    def toordinal(self):
        return _ymd2ord(self._vf_y, self._vf_m, self._vf_dd)

    @classmethod
    def fromordinal(cls, n):
        _check(AND(n >= 1, n <= _MAXORDINAL), ValueError, "ordinal must be >= 1")
        return cls(*_ord2ymd(n))

    @classmethod
    def today(cls):
        raise Unmodelled("date.today() must be stubbed by the harness")

    @classmethod
    def fromtimestamp(cls, t):
        raise Unmodelled("date.fromtimestamp")

    def weekday(self):
        return (self.toordinal() + 6) % 7

    def isoweekday(self):
        return (self.toordinal() + 6) % 7 + 1

    def isocalendar(self):
        return _cal.isocalendar(self._vf_y, self._vf_m, self._vf_dd)

    def replace(self, year=None, month=None, day=None):
        # C: date_new(Py_TYPE(self), ...) -- the subclass' __new__ is not consulted
        return date.__new__(type(self), self._vf_y if year is None else year,
                            self._vf_m if month is None else month,
                            self._vf_dd if day is None else day)

    def _shift(self, days):
        if isinstance(days, int) and days == 0:
            return self._vf_y, self._vf_m, self._vf_dd
        n = self.toordinal() + days
        _check(AND(n >= 1, n <= _MAXORDINAL), OverflowError, "date value out of range")
        if _USE_FIELD_STEPS and isinstance(days, int) and days in (1, -1) and _sym(self._vf_y, self._vf_m, self._vf_dd):
            # single-day steps (next()/previous() loops) stay on the fields: lemma succ/pred == ord2ymd(ord +- 1)
            t = (_cal.succ_day if days == 1 else _cal.pred_day)(self._vf_y, self._vf_m, self._vf_dd)
            _cal.memo_put(t, n)
            _lemma_valid(t)
            return t
        t = _ord2ymd(n)
        _lemma_valid(t)
        return t

    def __add__(self, o):
        if isinstance(o, timedelta):
            return type(self)(*self._shift(o.days))
        return NotImplemented

    __radd__ = __add__

    def __sub__(self, o):
        if isinstance(o, timedelta):
            return type(self)(*self._shift(-o.days))
        if isinstance(o, date):
            return timedelta(self.toordinal() - o.toordinal())
        return NotImplemented

    def _dkey(self):
        return (self._vf_y * 16 + self._vf_m) * 32 + self._vf_dd

    def _dcmp(self, o, op):
        if isinstance(o, date) and not isinstance(o, datetime):
            return op(self._dkey(), o._dkey())
        return NotImplemented

    def __eq__(self, o): return self._dcmp(o, lambda a, b: a == b)
    def __ne__(self, o):
        r = self._dcmp(o, lambda a, b: a == b)
        return r if r is NotImplemented else NOT(r)
    def __lt__(self, o): return self._dcmp(o, lambda a, b: a < b)
    def __le__(self, o): return self._dcmp(o, lambda a, b: a <= b)
    def __gt__(self, o): return self._dcmp(o, lambda a, b: a > b)
    def __ge__(self, o): return self._dcmp(o, lambda a, b: a >= b)
    def __hash__(self): return hash(self._dkey())

    def isoformat(self):
        return _fmt(self._vf_y, "04d") + "-" + _fmt(self._vf_m, "02d") + "-" + _fmt(self._vf_dd, "02d")

    def __str__(self):
        return self.isoformat()

    def __repr__(self):
        return f"datetime.date({self._vf_y}, {self._vf_m}, {self._vf_dd})"

    def __format__(self, fmt):
        if not isinstance(fmt, str):
            raise TypeError("must be str, not %s" % type(fmt).__name__)
        if len(fmt) != 0:
            return self.strftime(fmt)
        return str(self)

    def _real(self):
        if _sym(self._vf_y, self._vf_m, self._vf_dd):
            raise Unmodelled("C-level formatting of a symbolic date")
        return _REAL.date(self._vf_y, self._vf_m, self._vf_dd)

    def strftime(self, fmt):
        return self._real().strftime(fmt)

    def ctime(self):
        return self._real().ctime()

    def timetuple(self):
        return self._real().timetuple()

    def __reduce__(self):
        return (self.__class__, (self._vf_y, self._vf_m, self._vf_dd))


date.min = date(1, 1, 1)
date.max = date(9999, 12, 31)
date.resolution = timedelta(days=1)


# ------------------------------------------------------------------------------ time
def _check_time(hour, minute, second, microsecond, fold):
    _check(AND(hour >= 0, hour <= 23), ValueError, "hour must be in 0..23")
    _check(AND(minute >= 0, minute <= 59), ValueError, "minute must be in 0..59")
    _check(AND(second >= 0, second <= 59), ValueError, "second must be in 0..59")
    _check(AND(microsecond >= 0, microsecond <= 999999), ValueError, "microsecond must be in 0..999999")
    _check(OR(fold == 0, fold == 1), ValueError, "fold must be either 0 or 1")


def _check_tz(tz):
    if tz is not None and not isinstance(tz, tzinfo):
        raise TypeError("tzinfo argument must be None or of a tzinfo subclass, not type '%s'"
                        % type(tz).__name__)


def _iso_time(H, M, S, U, timespec="auto"):
    out = _fmt(H, "02d") + ":" + _fmt(M, "02d") + ":" + _fmt(S, "02d")
    if timespec == "auto":
        if U != 0:
            out += "." + _fmt(U, "06d")
    elif timespec == "microseconds":
        out += "." + _fmt(U, "06d")
    elif timespec == "milliseconds":
        out += "." + _fmt(U // 1000, "03d")
    elif timespec == "seconds":
        pass
    elif timespec == "minutes":
        out = _fmt(H, "02d") + ":" + _fmt(M, "02d")
    elif timespec == "hours":
        out = _fmt(H, "02d")
    else:
        raise ValueError("Unknown timespec value")
    return out


def _iso_off(off):
    """+HH:MM[:SS[.ffffff]] for a timedelta offset"""
    if off is None:
        return ""
    neg = off._vf_d < 0
    if neg:
        off = -off
        sign = "-"
    else:
        sign = "+"
    sec = off._vf_s
    hh, r = divmod(sec, 3600)
    mm, ss = divmod(r, 60)
    out = sign + _fmt(hh, "02d") + ":" + _fmt(mm, "02d")
    if OR(ss != 0, off._vf_us != 0):
        out += ":" + _fmt(ss, "02d")
        if off._vf_us != 0:
            out += "." + _fmt(off._vf_us, "06d")
    return out


class time:
    def __new__(cls, hour=0, minute=0, second=0, microsecond=0, tzinfo=None, *, fold=0):
        _check_time(hour, minute, second, microsecond, fold)
        _check_tz(tzinfo)
        self = object.__new__(cls)
        self._vf_H, self._vf_M, self._vf_S, self._vf_U = hour, minute, second, microsecond
        self._vf_tz, self._vf_fold = tzinfo, fold
        return self

    hour = property(lambda s: s._vf_H)
    minute = property(lambda s: s._vf_M)
    second = property(lambda s: s._vf_S)
    microsecond = property(lambda s: s._vf_U)
    tzinfo = property(lambda s: s._vf_tz)
    fold = property(lambda s: s._vf_fold)

    def utcoffset(self):
        return None if self._vf_tz is None else self._vf_tz.utcoffset(None)

    def dst(self):
        return None if self._vf_tz is None else self._vf_tz.dst(None)

    def tzname(self):
        return None if self._vf_tz is None else self._vf_tz.tzname(None)

    def replace(self, hour=None, minute=None, second=None, microsecond=None, tzinfo=True, *, fold=None):
        g = lambda v, cur: cur if v is None else v
        return time.__new__(type(self), g(hour, self._vf_H), g(minute, self._vf_M), g(second, self._vf_S),
                            g(microsecond, self._vf_U), self._vf_tz if tzinfo is True else tzinfo,
                            fold=g(fold, self._vf_fold))

    def _tus(self):
        return (self._vf_H * 3600 + self._vf_M * 60 + self._vf_S) * 1000000 + self._vf_U

    def _tcmp(self, o, op, eq=False):
        if not isinstance(o, time):
            return NotImplemented
        if self._vf_tz is o._vf_tz:
            return op(self._tus(), o._tus())
        a, b = self.utcoffset(), o.utcoffset()
        if a is None or b is None:
            if eq:
                return False if (a is None) != (b is None) else op(self._tus(), o._tus())
            if (a is None) != (b is None):
                raise TypeError("can't compare offset-naive and offset-aware times")
            return op(self._tus(), o._tus())
        return op(self._tus() - a._us(), o._tus() - b._us())

    def __eq__(self, o): return self._tcmp(o, lambda a, b: a == b, eq=True)
    def __ne__(self, o):
        r = self._tcmp(o, lambda a, b: a == b, eq=True)
        return r if r is NotImplemented else NOT(r)
    def __lt__(self, o): return self._tcmp(o, lambda a, b: a < b)
    def __le__(self, o): return self._tcmp(o, lambda a, b: a <= b)
    def __gt__(self, o): return self._tcmp(o, lambda a, b: a > b)
    def __ge__(self, o): return self._tcmp(o, lambda a, b: a >= b)

    def __hash__(self):
        off = self.utcoffset()
        return hash(self._tus() - (0 if off is None else off._us()))

    def isoformat(self, timespec="auto"):
        return _iso_time(self._vf_H, self._vf_M, self._vf_S, self._vf_U, timespec) + _iso_off(self.utcoffset())

    __str__ = isoformat

    def __repr__(self):
        return f"datetime.time({self._vf_H}, {self._vf_M}, {self._vf_S}, {self._vf_U})"

    def _real(self):
        if _sym(self._vf_H, self._vf_M, self._vf_S, self._vf_U):
            raise Unmodelled("C-level formatting of a symbolic time")
        return _REAL.time(self._vf_H, self._vf_M, self._vf_S, self._vf_U)

    def strftime(self, fmt):
        return self._real().strftime(fmt)

    def __format__(self, fmt):
        if len(fmt) != 0:
            return self.strftime(fmt)
        return str(self)

    def __reduce_ex__(self, protocol):
        return (self.__class__, (self._vf_H, self._vf_M, self._vf_S, self._vf_U, self._vf_tz))

    def __reduce__(self):
        return self.__reduce_ex__(2)


time.min = time(0, 0, 0)
time.max = time(23, 59, 59, 999999)
time.resolution = timedelta(microseconds=1)


# ------------------------------------------------------------------------------ datetime
class datetime(date):
    def __new__(cls, year, month=None, day=None, hour=0, minute=0, second=0, microsecond=0,
                tzinfo=None, *, fold=0):
        self = date.__new__(cls, year, month, day)
        _check_time(hour, minute, second, microsecond, fold)
        _check_tz(tzinfo)
        self._vf_H, self._vf_M, self._vf_S, self._vf_U = hour, minute, second, microsecond
        self._vf_tz, self._vf_fold = tzinfo, fold
        return self

    hour = property(lambda s: s._vf_H)
    minute = property(lambda s: s._vf_M)
    second = property(lambda s: s._vf_S)
    microsecond = property(lambda s: s._vf_U)
    tzinfo = property(lambda s: s._vf_tz)
    fold = property(lambda s: s._vf_fold)

    def utcoffset(self):
        if self._vf_tz is None:
            return None
        off = self._vf_tz.utcoffset(self)
        if off is not None:
            if not isinstance(off, timedelta):
                raise TypeError("tzinfo.utcoffset() must return None or timedelta")
            us = off._us()
            _check(AND(us > -86400 * 10**6, us < 86400 * 10**6), ValueError,
                   "offset must be a timedelta strictly between -timedelta(hours=24) and timedelta(hours=24)")
        return off

    def dst(self):
        return None if self._vf_tz is None else self._vf_tz.dst(self)

    def tzname(self):
        return None if self._vf_tz is None else self._vf_tz.tzname(self)

    def _sod(self):
        return self._vf_H * 3600 + self._vf_M * 60 + self._vf_S

    def _build(self, y, m, d, sod, us, tz):
        H, r = divmod(sod, 3600)
        M, S = divmod(r, 60)
        cls = type(self)
        if cls is datetime:
            return datetime.__new__(cls, y, m, d, H, M, S, us, tz)
        return cls(y, m, d, H, M, S, us, tz)          # new_datetime_subclass_ex

    def replace(self, year=None, month=None, day=None, hour=None, minute=None, second=None,
                microsecond=None, tzinfo=True, *, fold=None):
        g = lambda v, cur: cur if v is None else v
        # C 3.12: datetime_new(Py_TYPE(self), ...) then DATE_SET_FOLD
        return datetime.__new__(type(self), g(year, self._vf_y), g(month, self._vf_m), g(day, self._vf_dd),
                                g(hour, self._vf_H), g(minute, self._vf_M), g(second, self._vf_S),
                                g(microsecond, self._vf_U), self._vf_tz if tzinfo is True else tzinfo,
                                fold=g(fold, self._vf_fold))

    def _plus(self, td, sign):
        us = self._vf_U + sign * td._vf_us
        q, us = divmod(us, 1000000)
        s = self._sod() + sign * td._vf_s + q
        q, s = divmod(s, 86400)
        y, m, d = self._shift(sign * td._vf_d + q)
        return self._build(y, m, d, s, us, self._vf_tz)

    def __add__(self, o):
        if isinstance(o, timedelta):
            return self._plus(o, 1)
        return NotImplemented

    __radd__ = __add__

    def _naive_us(self):
        return (self.toordinal() * 86400 + self._sod()) * 1000000 + self._vf_U

    def _utc_us(self):
        off = self.utcoffset()
        return self._naive_us() - (0 if off is None else off._us())

    def __sub__(self, o):
        if isinstance(o, timedelta):
            return self._plus(o, -1)
        if isinstance(o, datetime):
            if self._vf_tz is o._vf_tz:
                return timedelta(0, 0, self._naive_us() - o._naive_us())
            a, b = self.utcoffset(), o.utcoffset()
            if (a is None) != (b is None):
                raise TypeError("can't subtract offset-naive and offset-aware datetimes")
            if a is None:
                return timedelta(0, 0, self._naive_us() - o._naive_us())
            return timedelta(0, 0, (self._naive_us() - a._us()) - (o._naive_us() - b._us()))
        return NotImplemented

    def _exc_fold(self):
        """PEP 495: does utcoffset() depend on fold? (pep495_eq_exception)"""
        if self._vf_tz is None:
            return False
        flip = datetime.__new__(datetime, self._vf_y, self._vf_m, self._vf_dd, self._vf_H, self._vf_M,
                                self._vf_S, self._vf_U, self._vf_tz, fold=1 - self._vf_fold)
        a, b = self.utcoffset(), flip.utcoffset()
        if a is None or b is None:
            return a is not b
        return a._us() != b._us()

    def _dtcmp(self, o, op, eq=False):
        if not isinstance(o, datetime):
            if isinstance(o, date):
                if eq:
                    return NotImplemented
                raise TypeError("can't compare datetime.datetime to datetime.date")
            return NotImplemented
        if self._vf_tz is o._vf_tz:
            return op(self._naive_us(), o._naive_us())
        a, b = self.utcoffset(), o.utcoffset()
        if eq:
            # an instance in a fold/gap never equals an instance in another zone
            ex = OR(self._exc_fold(), o._exc_fold())
            if (a is None) != (b is None):
                return False
            if a is None:
                return op(self._naive_us(), o._naive_us())
            return AND(NOT(ex), op(self._naive_us() - a._us(), o._naive_us() - b._us()))
        if (a is None) != (b is None):
            raise TypeError("can't compare offset-naive and offset-aware datetimes")
        if a is None:
            return op(self._naive_us(), o._naive_us())
        return op(self._naive_us() - a._us(), o._naive_us() - b._us())

    def __eq__(self, o): return self._dtcmp(o, lambda a, b: a == b, eq=True)
    def __ne__(self, o):
        r = self._dtcmp(o, lambda a, b: a == b, eq=True)
        return r if r is NotImplemented else NOT(r)
    def __lt__(self, o): return self._dtcmp(o, lambda a, b: a < b)
    def __le__(self, o): return self._dtcmp(o, lambda a, b: a <= b)
    def __gt__(self, o): return self._dtcmp(o, lambda a, b: a > b)
    def __ge__(self, o): return self._dtcmp(o, lambda a, b: a >= b)

    def __hash__(self):
        if self._vf_tz is None:
            return hash(self._naive_us())
        z = datetime.__new__(datetime, self._vf_y, self._vf_m, self._vf_dd, self._vf_H, self._vf_M,
                             self._vf_S, self._vf_U, self._vf_tz, fold=0)
        return hash(z._utc_us())

    def astimezone(self, tz=None):
        if tz is None:
            raise Unmodelled("astimezone(None) (system local zone)")
        if not isinstance(tz, tzinfo):
            raise TypeError("tzinfo argument must be None or of a tzinfo subclass")
        if self._vf_tz is None:
            raise Unmodelled("astimezone() of a naive datetime (system local zone)")
        if tz is self._vf_tz:
            return self
        off = self.utcoffset()
        if off is None:
            raise Unmodelled("astimezone() with utcoffset() None")
        utc = self._plus(off, -1)            # type(self)(..., tzinfo=self.tz)
        utc._vf_tz = tz                      # C mutates the temporary in place
        return tz.fromutc(utc)

    def date(self):
        return date(self._vf_y, self._vf_m, self._vf_dd)

    def time(self):
        return time(self._vf_H, self._vf_M, self._vf_S, self._vf_U, fold=self._vf_fold)

    def timetz(self):
        return time(self._vf_H, self._vf_M, self._vf_S, self._vf_U, self._vf_tz, fold=self._vf_fold)

    def timestamp(self):
        if self._vf_tz is None:
            raise Unmodelled("timestamp() of a naive datetime (system local zone)")
        us = self._utc_us() - _cal.EPOCH_ORD * 86400 * 1000000
        if isinstance(us, int):
            return us / 10**6
        return SFloat.of(us) / 10**6

    @classmethod
    def now(cls, tz=None):
        raise Unmodelled("now() must be stubbed by the harness")

    @classmethod
    def utcnow(cls):
        raise Unmodelled("utcnow() must be stubbed by the harness")

    @classmethod
    def today(cls):
        raise Unmodelled("today() must be stubbed by the harness")

    @classmethod
    def combine(cls, d, t, tzinfo=True):
        tz = t.tzinfo if tzinfo is True else tzinfo
        if cls is datetime:
            return datetime.__new__(cls, d.year, d.month, d.day, t.hour, t.minute, t.second, t.microsecond,
                                    tz, fold=t.fold)
        r = cls(d.year, d.month, d.day, t.hour, t.minute, t.second, t.microsecond, tz)
        if t.fold:
            r._vf_fold = t.fold
        return r

    @classmethod
    def _from_epoch_us(cls, us, tz):
        days, rem = divmod(us, 86400 * 1000000)
        secs, usec = divmod(rem, 1000000)
        y, m, d = _ord2ymd(days + _cal.EPOCH_ORD)
        H, r = divmod(secs, 3600)
        M, S = divmod(r, 60)
        if cls is datetime:
            return datetime.__new__(cls, y, m, d, H, M, S, usec, tz)
        return cls(y, m, d, H, M, S, usec, tz)

    @classmethod
    def utcfromtimestamp(cls, t):
        if isinstance(t, (int, SInt)):
            us = t * 1000000
        elif isinstance(t, float):
            r = _REAL.datetime.utcfromtimestamp(t) if False else None
            # round-half-even to microseconds as _PyTime_ObjectToTimeval does
            from fractions import Fraction
            f = Fraction(t) * 1000000
            fl = f.numerator // f.denominator
            rem = f - fl
            us = fl + (1 if (rem > Fraction(1, 2) or (rem == Fraction(1, 2) and fl % 2 == 1)) else 0)
        else:
            raise Unmodelled("utcfromtimestamp of a symbolic float")
        _check(AND(us >= -62135596800 * 1000000, us < 253402300800 * 1000000), ValueError,
               "year is out of range")
        return cls._from_epoch_us(us, None)

    @classmethod
    def fromtimestamp(cls, t, tz=None):
        if tz is None:
            raise Unmodelled("fromtimestamp() without tz (system local zone)")
        utc = cls.utcfromtimestamp(t)
        utc._vf_tz = tz
        return tz.fromutc(utc)

    @classmethod
    def fromordinal(cls, n):
        _check(AND(n >= 1, n <= _MAXORDINAL), ValueError, "ordinal must be >= 1")
        y, m, d = _ord2ymd(n)
        if cls is datetime:
            return datetime.__new__(cls, y, m, d)
        return cls(y, m, d, 0, 0, 0, 0, None)

    @classmethod
    def strptime(cls, s, fmt):
        from . import shapes as _sh
        if _sh.has_sym(s):
            if fmt != "%Y-%j":
                raise Unmodelled(f"strptime({fmt!r}) on symbolic digits")
            # contract of _strptime for "%Y-%j": exactly four year digits, 1..3 day-of-year digits in 1..366
            parts = s.split("-")
            ok = len(parts) == 2 and len(parts[0]) == 4 and 1 <= len(parts[1]) <= 3 and all(
                (c.isdigit() or _sh.is_pua(c)) for c in parts[0] + parts[1])
            if not ok:
                raise ValueError("time data %r does not match format %r" % (s, fmt))
            year, julian = _sh.int_of_str(parts[0]), _sh.int_of_str(parts[1])
            _check(AND(julian >= 1, julian <= 366), ValueError, "time data does not match format '%Y-%j'")
            _check(year >= 1, ValueError, "year 0 is out of range")
            y, m, d = _ord2ymd(_ymd2ord(year, 1, 1) + julian - 1)
            _check(y <= MAXYEAR, ValueError, "year is out of range")
            return cls(y, m, d)
        r = _REAL.datetime.strptime(s, fmt)
        return cls(r.year, r.month, r.day, r.hour, r.minute, r.second, r.microsecond)

    def isoformat(self, sep="T", timespec="auto"):
        return (date.isoformat(self) + sep
                + _iso_time(self._vf_H, self._vf_M, self._vf_S, self._vf_U, timespec)
                + _iso_off(self.utcoffset()))

    def __str__(self):
        return self.isoformat(sep=" ")

    def __repr__(self):
        return (f"datetime.datetime({self._vf_y}, {self._vf_m}, {self._vf_dd}, {self._vf_H}, {self._vf_M}, "
                f"{self._vf_S}, {self._vf_U}, fold={self._vf_fold}, tzinfo={self._vf_tz!r})")

    def _real(self):
        f = (self._vf_y, self._vf_m, self._vf_dd, self._vf_H, self._vf_M, self._vf_S, self._vf_U)
        if _sym(*f) or _sym(self._vf_fold):
            raise Unmodelled("C-level formatting of a symbolic datetime")
        return _REAL.datetime(*f, fold=self._vf_fold)

    def strftime(self, fmt):
        if "%z" in fmt or "%Z" in fmt:
            raise Unmodelled("strftime with zone directives")
        return self._real().strftime(fmt)

    def ctime(self):
        return self._real().ctime()

    def timetuple(self):
        return self._real().timetuple()

    def utctimetuple(self):
        off = self.utcoffset()
        x = self if off is None else datetime.__new__(
            datetime, self._vf_y, self._vf_m, self._vf_dd, self._vf_H, self._vf_M, self._vf_S, self._vf_U)._plus(off, -1)
        return x._real().timetuple()

    def __reduce_ex__(self, protocol):
        return (self.__class__, (self._vf_y, self._vf_m, self._vf_dd, self._vf_H, self._vf_M, self._vf_S,
                                 self._vf_U, self._vf_tz))

    def __reduce__(self):
        return self.__reduce_ex__(2)


datetime.min = datetime(1, 1, 1)
datetime.max = datetime(9999, 12, 31, 23, 59, 59, 999999)
datetime.resolution = timedelta(microseconds=1)


# ------------------------------------------------------------------------------ timezone
class timezone(tzinfo):
    def __new__(cls, offset, name=None):
        if not isinstance(offset, timedelta):
            raise TypeError("offset must be a timedelta")
        self = object.__new__(cls)
        self._vf_off = offset
        self._vf_name = name
        return self

    def utcoffset(self, dt):
        return self._vf_off

    def dst(self, dt):
        return None

    def tzname(self, dt):
        if self._vf_name is not None:
            return self._vf_name
        if self._vf_off._us() == 0:
            return "UTC"
        return "UTC" + _iso_off(self._vf_off)

    def fromutc(self, dt):
        if dt.tzinfo is not self:
            raise ValueError("fromutc: dt.tzinfo is not self")
        return dt + self._vf_off

    def __eq__(self, o):
        if isinstance(o, timezone):
            return self._vf_off == o._vf_off
        return NotImplemented

    def __hash__(self):
        return hash(self._vf_off)

    def __getinitargs__(self):
        if self._vf_name is None:
            return (self._vf_off,)
        return (self._vf_off, self._vf_name)

    def __repr__(self):
        return f"datetime.timezone({self._vf_off!r})"


timezone.utc = timezone(timedelta(0))
timezone.min = timezone(-timedelta(hours=23, minutes=59))
timezone.max = timezone(timedelta(hours=23, minutes=59))
UTC = timezone.utc
datetime_CAPI = None
