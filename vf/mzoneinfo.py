"""Model of zoneinfo.ZoneInfo as its PEP 495 contract (the environment, not the code under test).

A zone is a list of UTC transition instants T_1 < T_2 < ... (seconds, as numbers from the
calendar origin: ordinal*86400 + second-of-day) and offsets o_0, o_1, ... (seconds); all of
them may be symbolic.  `utcoffset` is literally `_find_trans`/`_ts_to_local` of the reference
implementation, `fromutc` the C code's bisect + fold rule, and the arithmetic it performs goes
through the *subclass's* `__add__` / `replace` exactly as `PyNumber_Add` / `getattr(tmp,
"replace")` do -- those are pendulum code and are therefore executed, not assumed.
"""
from __future__ import annotations

import datetime as _dt   # resolves to the model (this module is imported after the swap)

from .symx import SInt, SBool, ite, eng, AND, OR, NOT, Unmodelled, smin, smax


class ZoneInfoNotFoundError(KeyError):
    pass


class InvalidTZPathWarning(RuntimeWarning):
    pass


_REGISTRY = {}      # key -> spec: ('fixed', seconds, abbr) | ('sym', [T...], [o...])
_CLASSES = []
TZPATH = ()


def register(key, spec):
    _REGISTRY[key] = spec
    for c in _CLASSES:
        c._vf_cache.pop(key, None)
    ZoneInfo._vf_cache.pop(key, None)


def unregister_all(prefix="Verif/"):
    for k in [k for k in _REGISTRY if k.startswith(prefix)]:
        del _REGISTRY[k]
        for c in _CLASSES:
            c._vf_cache.pop(k, None)
        ZoneInfo._vf_cache.pop(k, None)


def _wall_seconds(dt):
    return dt.toordinal() * 86400 + dt.hour * 3600 + dt.minute * 60 + dt.second


class ZoneInfo(_dt.tzinfo):
    _vf_cache = {}

    def __init_subclass__(cls, **kw):
        cls._vf_cache = {}
        _CLASSES.append(cls)

    def __new__(cls, key):
        if key in cls._vf_cache:
            return cls._vf_cache[key]
        if not isinstance(key, str) or key not in _REGISTRY:
            raise ZoneInfoNotFoundError("No time zone found with key %s" % (key,))
        self = object.__new__(cls)
        self._vf_key = key
        self._vf_spec = _REGISTRY[key]
        cls._vf_cache[key] = self
        return self

    @classmethod
    def no_cache(cls, key):
        if key not in _REGISTRY:
            raise ZoneInfoNotFoundError(key)
        self = object.__new__(cls)
        self._vf_key = key
        self._vf_spec = _REGISTRY[key]
        return self

    @classmethod
    def clear_cache(cls, *, only_keys=None):
        if only_keys is None:
            cls._vf_cache.clear()
        else:
            for k in only_keys:
                cls._vf_cache.pop(k, None)

    @classmethod
    def from_file(cls, fobj, /, key=None):
        raise Unmodelled("ZoneInfo.from_file")

    @property
    def key(self):
        return self._vf_key

    # -- contract
    def _off_wall(self, dt):
        spec = self._vf_spec
        if spec[0] == "fixed":
            return spec[1]
        _, Ts, offs = spec
        w = _wall_seconds(dt)
        fold1 = bool(dt.fold == 1)
        off = offs[0]
        # bisect_right over trans_list_wall[fold]; the wall lists are non-decreasing for real
        # zones, which the harness assumes (T_{i+1} - T_i > |offset change|)
        for i, T in enumerate(Ts):
            o_prev, o_next = offs[i], offs[i + 1]
            gap = o_next > o_prev
            # fold=0 uses T + max(offsets), fold=1 T + min(offsets)   (forks keep forms linear)
            if (fold1 and not gap) or (not fold1 and gap):
                thr = T + o_next
            else:
                thr = T + o_prev
            if w >= thr:
                off = o_next
        return off

    def utcoffset(self, dt):
        if dt is None:
            spec = self._vf_spec
            return _dt.timedelta(seconds=spec[1]) if spec[0] == "fixed" else None
        return _dt.timedelta(seconds=self._off_wall(dt))

    def dst(self, dt):
        if dt is None and self._vf_spec[0] != "fixed":
            return None
        return _dt.timedelta(0)

    def tzname(self, dt):
        spec = self._vf_spec
        if spec[0] == "fixed":
            return spec[2] if len(spec) > 2 else self._vf_key
        if dt is None:
            return None
        return self._vf_key

    def fromutc(self, dt):
        if not isinstance(dt, _dt.datetime):
            raise TypeError("fromutc() requires a datetime argument")
        if dt.tzinfo is not self:
            raise ValueError("fromutc: dt.tzinfo is not self")
        spec = self._vf_spec
        if spec[0] == "fixed":
            return dt + _dt.timedelta(seconds=spec[1])
        _, Ts, offs = spec
        u = _wall_seconds(dt)
        off = offs[0]
        fold = False
        for i, T in enumerate(Ts):
            o_prev, o_next = offs[i], offs[i + 1]
            if u >= T:
                off = o_next
                nxt_before = (u < Ts[i + 1]) if i + 1 < len(Ts) else True
                fold = False
                if nxt_before and o_next < o_prev and u - T < o_prev - o_next:
                    fold = True
        out = dt + _dt.timedelta(seconds=off)   # dispatches to the subclass __add__ (PyNumber_Add)
        if fold:
            if type(out) is _dt.datetime:
                out._vf_fold = 1
                return out
            return out.replace(fold=1)            # like the C code: the subclass's replace()
        return out

    def __reduce__(self):
        return (self.__class__._unpickle, (self._vf_key, 1))

    @classmethod
    def _unpickle(cls, key, from_cache):
        if from_cache:
            return cls(key)
        return cls.no_cache(key)

    def __repr__(self):
        return f"zoneinfo.ZoneInfo(key={self._vf_key!r})"

    def __str__(self):
        return self._vf_key


def available_timezones():
    return set(_REGISTRY)


def reset_tzpath(to=None):
    pass


register("UTC", ("fixed", 0, "UTC"))
