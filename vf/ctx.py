"""Harness context.  One harness function runs in two modes:

  sym  : on the re-hosted library, inputs are symbolic, claims go to the solver
  real : on the unmodified library (C datetime/zoneinfo), inputs come from a solver model,
         claims are evaluated concretely  -> replay of counterexamples, and differential
         validation of the models (observations must agree)
"""
from __future__ import annotations

import io
import os

from . import symx, cal
from .symx import SInt, SBool, SFloat, AND, OR, NOT, IMPLIES, ite, PathAbort, Unmodelled

KF_PATH = os.path.join(os.path.dirname(os.path.dirname(os.path.abspath(__file__))), "known_findings.json")


def load_known():
    import json
    try:
        with open(KF_PATH) as f:
            data = json.load(f)
    except FileNotFoundError:
        return {}
    return {e["id"]: e for e in data.get("findings", []) if e.get("status") == "known"}


class BaseCtx:
    mode = None

    def __init__(self):
        self.known = load_known()
        self.known_used = set()

    # -- known findings: region predicates are only honoured for ids listed as "known"
    def known_region(self, kf_id, region):
        """returns `region` if kf_id is an active known finding, else False"""
        if kf_id in self.known:
            self.known_used.add(kf_id)
            return region() if callable(region) else region
        return False

    def year(self, name, lo=1, hi=9999):
        raise NotImplementedError


class SymCtx(BaseCtx):
    mode = "sym"

    def __init__(self, host):
        super().__init__()
        self.host = host
        self.P = host.pendulum
        self.dt = host.datetime
        self.zi = host.zoneinfo
        self._zones = 0

    def int(self, name, lo, hi):
        return symx.sym_int(name, lo, hi)

    def bool(self, name):
        return symx.sym_bool(name)

    def year(self, name, lo=1, hi=9999):
        return cal.sym_year(name, lo, hi)

    def digits(self, name, n):
        from . import shapes
        return shapes.sym_digits(name, n)

    def assume(self, cond):
        symx.eng().assume(cond)

    def claim(self, label, cond):
        symx.eng().claim(label, cond)

    def observe(self, label, value):
        symx.eng().path.observed_sym.append((label, value))

    def reach(self, label, cond=True):
        symx.eng().reach(label, cond)

    def want_model(self):
        symx.eng().path.want_model = True

    def concrete(self, x):
        """fork over the values of a small-range symbolic int"""
        return x.concretize() if isinstance(x, SInt) else x

    def sym_zone(self, key, Ts, offs):
        """named zone with transitions at Ts (seconds from the ordinal origin) and offsets offs"""
        for i in range(len(Ts)):
            # real zones keep their wall-clock transition lists sorted
            d = offs[i + 1] - offs[i]
            if i + 1 < len(Ts):
                self.assume(Ts[i + 1] - Ts[i] > abs(offs[i + 2] - offs[i + 1]) + abs(d))
        self.zi.register(key, ("sym", list(Ts), list(offs)))
        import sys
        return sys.modules["pendulum.tz.timezone"].Timezone(key)

    def fixed_zone(self, off, name=None):
        import sys
        return sys.modules["pendulum.tz.timezone"].FixedTimezone(off, name)

    def native_zone(self, key, Ts, offs):
        """a plain zoneinfo.ZoneInfo (not a pendulum Timezone) with the same contract"""
        self.zi.register(key, ("sym", list(Ts), list(offs)))
        return self.zi.ZoneInfo(key)


class RealCtx(BaseCtx):
    mode = "real"

    def __init__(self, inputs):
        super().__init__()
        import pendulum
        import datetime
        import zoneinfo
        self.P = pendulum
        self.dt = datetime
        self.zi = zoneinfo
        self.inputs = inputs
        self.claims = []
        self.observed = []
        self.reached = []

    def int(self, name, lo, hi):
        # partial models (reachability witnesses taken before later inputs were declared) default to the lower bound
        v = self.inputs.get(name, lo if lo > 0 or hi < 0 else 0)
        if not (lo <= v <= hi):
            raise PathAbort()
        return v

    def bool(self, name):
        return bool(self.inputs.get(name, False))

    def year(self, name, lo=1, hi=9999):
        if name + "_c" not in self.inputs:
            return lo
        y = cal.year_from_digits(self.inputs, name)
        if not (lo <= y <= hi):
            raise PathAbort()
        return y

    def digits(self, name, n):
        return "".join(str(self.inputs.get(f"{name}{i}", 0)) for i in range(n))

    def assume(self, cond):
        if not cond:
            raise PathAbort()

    def claim(self, label, cond):
        self.claims.append((label, bool(cond)))

    def observe(self, label, value):
        self.observed.append([label, _plain(value)])

    def reach(self, label, cond=True):
        if cond:
            self.reached.append(label)

    def want_model(self):
        pass

    def concrete(self, x):
        return x

    def sym_zone(self, key, Ts, offs):
        from . import tzif
        for i in range(len(Ts)):
            d = offs[i + 1] - offs[i]
            if i + 1 < len(Ts):
                self.assume(Ts[i + 1] - Ts[i] > abs(offs[i + 2] - offs[i + 1]) + abs(d))
        data = tzif.make([t - cal.EPOCH_ORD * 86400 for t in Ts], list(offs))
        self._install(key, data)
        return self.P.tz.timezone.Timezone(key)

    def _install(self, key, data):
        """make `key` resolvable by name through zoneinfo's search path (as a tz database zone would be)"""
        import tempfile
        if getattr(self, "_tzdir", None) is None:
            self._tzdir = tempfile.mkdtemp(prefix="vf-tz-")
            import atexit, shutil
            atexit.register(shutil.rmtree, self._tzdir, True)
        path = os.path.join(self._tzdir, *key.split("/"))
        os.makedirs(os.path.dirname(path), exist_ok=True)
        with open(path, "wb") as f:
            f.write(data)
        self.zi.reset_tzpath(to=[self._tzdir])
        self.zi.ZoneInfo.clear_cache()
        self.P.tz.timezone.Timezone.clear_cache()

    def fixed_zone(self, off, name=None):
        return self.P.tz.timezone.FixedTimezone(off, name)

    def native_zone(self, key, Ts, offs):
        from . import tzif
        data = tzif.make([t - cal.EPOCH_ORD * 86400 for t in Ts], list(offs))
        self._install(key, data)
        return self.zi.ZoneInfo(key)


def _plain(v):
    if isinstance(v, (list, tuple)):
        return [_plain(x) for x in v]
    if isinstance(v, bool) or v is None or isinstance(v, (int, str)):
        return v
    if isinstance(v, float):
        return repr(v)
    return str(v)
