"""Re-host the unmodified /repo/src/pendulum on top of the model standard library.

`load()` imports pendulum fresh from the working tree with `datetime`, `zoneinfo` (and the
stdlib `calendar.py`, re-executed on the model `datetime`) swapped in `sys.modules` only for the
duration of the import, installs the per-module shims (`int`, `float`, `re`, `copysign`,
`traceback`) and returns the package.  Nothing under /repo is modified.
"""
from __future__ import annotations

import builtins
import importlib
import math
import os
import sys
import types

from . import symx, shapes

SRC = os.environ.get("VF_SRC", "/repo/src")
_loaded = None


class _IntT(type):
    def __instancecheck__(cls, x):
        return isinstance(x, (builtins.int, symx.SInt))

    def __subclasscheck__(cls, c):
        return issubclass(c, builtins.int)

    def __call__(cls, x=0, *a):
        if isinstance(x, symx.SInt):
            return x
        if isinstance(x, symx.SBool):
            return symx.ite(x, 1, 0)
        if isinstance(x, symx.SFloat):
            return x.trunc()
        if isinstance(x, str) and shapes.has_sym(x):
            return shapes.int_of_str(x, *a)
        return builtins.int(x, *a)


IntShim = _IntT("int", (), {})


class _FloatT(type):
    def __instancecheck__(cls, x):
        return isinstance(x, (builtins.float, symx.SFloat))

    def __subclasscheck__(cls, c):
        return issubclass(c, builtins.float)

    def __call__(cls, x=0.0):
        if isinstance(x, symx.SFloat):
            return x
        if isinstance(x, symx.SInt):
            return symx.SFloat.of(x)
        if isinstance(x, str) and shapes.has_sym(x):
            return float_of_str(x)
        return builtins.float(x)


FloatShim = _FloatT("float", (), {})


def float_of_str(s):
    """float("DD.DDD") with symbolic digits -> exact rational + one rounding"""
    t = s.strip().replace(",", ".")
    if "." in t:
        a, b = t.split(".", 1)
    else:
        a, b = t, ""
    if not all(c.isdigit() or shapes.is_pua(c) for c in a + b) or not (a + b):
        raise ValueError(f"could not convert string to float: {s!r}")
    n = shapes.digits_value(a + b)
    return symx.SFloat.of(n) / (10 ** len(b))


def copysign(a, x):
    if isinstance(x, (symx.SInt, symx.SFloat)):
        if not isinstance(a, (builtins.int, builtins.float)):
            raise symx.Unmodelled("copysign of symbolic magnitude")
        # fork keeps arithmetic linear; -0.0 cannot arise from the integer-derived values used
        return abs(a) if x >= 0 else -abs(a)
    return math.copysign(a, x)


class _TB:
    """traceback.extract_stack that hides model frames, as C frames are hidden in production"""
    _HIDE = ("mdatetime.py", "mzoneinfo.py", "rehost.py")

    def __init__(self):
        import traceback as _tb
        self._tb = _tb

    def extract_stack(self, f=None, limit=None):
        st = [fr for fr in self._tb.extract_stack() if not fr.filename.endswith(self._HIDE)]
        return st[-limit:] if limit else st

    def __getattr__(self, k):
        return getattr(self._tb, k)


def _du_parse(*a, **k):
    raise ValueError("dateutil stub: unknown string format")


def load(src=None, stub_dateutil=True):
    global _loaded
    if _loaded is not None:
        return _loaded
    src = src or SRC
    os.environ["PENDULUM_EXTENSIONS"] = "0"
    from . import mdatetime
    real = {k: sys.modules.get(k) for k in ("datetime", "zoneinfo", "calendar", "dateutil",
                                            "dateutil.parser", "time_machine")}
    sys.modules["datetime"] = mdatetime
    from . import mzoneinfo
    sys.modules["zoneinfo"] = mzoneinfo
    sys.modules.pop("calendar", None)
    if stub_dateutil:
        du = types.ModuleType("dateutil")
        dup = types.ModuleType("dateutil.parser")
        dup.parse = _du_parse
        du.parser = dup
        sys.modules["dateutil"] = du
        sys.modules["dateutil.parser"] = dup
    sys.modules["time_machine"] = None
    for k in [k for k in sys.modules if k == "pendulum" or k.startswith("pendulum.")]:
        del sys.modules[k]
    sys.path.insert(0, src)
    try:
        pendulum = importlib.import_module("pendulum")
        import pendulum.parsing.iso8601  # noqa: F401
        mcal = sys.modules.get("calendar")
    finally:
        sys.path.remove(src)
        for k, v in real.items():
            if v is not None:
                sys.modules[k] = v
            else:
                sys.modules.pop(k, None)
    if not pendulum.__file__.startswith(src):
        raise RuntimeError(f"pendulum imported from {pendulum.__file__}, expected {src}")
    tb = _TB()
    reshim = shapes.ReShim()
    for name, mod in list(sys.modules.items()):
        if name == "pendulum" or name.startswith("pendulum."):
            if mod is None or name.startswith("pendulum.locales."):
                continue
            d = mod.__dict__
            for k, v in list(d.items()):
                # constant lookup tables of the repository: symbolic index -> ite-chain
                if k.isupper() and isinstance(v, tuple) and v and all(
                        isinstance(x, (int, tuple)) and not isinstance(x, bool) for x in v):
                    d[k] = symx.symtuple(v)
            d["int"] = IntShim
            d["float"] = FloatShim
            if "copysign" in d:
                d["copysign"] = copysign
            if "traceback" in d:
                d["traceback"] = tb
            if "re" in d and isinstance(d["re"], types.ModuleType):
                d["re"] = reshim
    # module-level compiled patterns -> digit-aware
    import re as _re
    for name, mod in list(sys.modules.items()):
        if name.startswith("pendulum.") and mod is not None and not name.startswith("pendulum.locales."):
            for k, v in list(mod.__dict__.items()):
                if isinstance(v, _re.Pattern):
                    try:
                        mod.__dict__[k] = shapes.compile_sym(v)
                    except shapes.NotDigitAgnostic:
                        pass
    fm = sys.modules["pendulum.formatting.formatter"]
    F = fm.Formatter
    for attr in dir(F):
        v = getattr(F, attr, None)
        if isinstance(v, _re.Pattern):
            try:
                setattr(F, attr, shapes.compile_sym(v))
            except shapes.NotDigitAgnostic:
                pass
    if mcal is not None:
        mcal.__dict__["int"] = IntShim
    sys.modules["pendulum.tz"]._tz_cache = symx.SymDict()
    _loaded = types.SimpleNamespace(pendulum=pendulum, datetime=mdatetime, zoneinfo=mzoneinfo,
                                    calendar=mcal, src=src)
    return _loaded


def reset_state():
    """Reset process-global state that pendulum mutates, between paths."""
    if _loaded is None:
        return
    p = _loaded.pendulum
    p._LOCALE = "en"
    p._WEEK_STARTS_AT = p.WeekDay.MONDAY
    p._WEEK_ENDS_AT = p.WeekDay.SUNDAY
    sys.modules["pendulum.tz"]._tz_cache.clear()
    _loaded.zoneinfo.unregister_all()
    from . import cal
    cal.memo_reset()
