"""Proleptic Gregorian calendar arithmetic, polymorphic over int / SInt.

Used by the model `datetime` (so that symbolic dates stay in linear normal form) and, as the
independent oracle, by the harnesses -- where it also runs on plain ints when a harness is
replayed against the unmodified library.
"""
from __future__ import annotations

from .symx import SInt, SBool, ite, table, AND, OR, NOT, eng, sym_int, is_sym

MINYEAR = 1
MAXYEAR = 9999
MAXORDINAL = 3652059
DBM = (0, 31, 59, 90, 120, 151, 181, 212, 243, 273, 304, 334)
DIM = (31, 28, 31, 30, 31, 30, 31, 31, 30, 31, 30, 31)
EPOCH_ORD = 719163          # date(1970,1,1).toordinal()


def is_leap(y):
    return AND(y % 4 == 0, OR(y % 100 != 0, y % 400 == 0))


def days_before_year(y):
    ym = y - 1
    return ym * 365 + ym // 4 - ym // 100 + ym // 400


def days_in_month(y, m):
    return table(m, DIM, 1) + ite(AND(m == 2, is_leap(y)), 1, 0)


def days_before_month(y, m):
    return table(m, DBM, 1) + ite(AND(m > 2, is_leap(y)), 1, 0)


def days_in_year(y):
    return 365 + ite(is_leap(y), 1, 0)


# provenance memo: (y, m, d) objects produced by ord2ymd remember their ordinal
_ORDMEMO = {}


def memo_reset():
    _ORDMEMO.clear()


def ymd2ord(y, m, d):
    hit = _ORDMEMO.get((id(y), id(m), id(d)))
    if hit is not None and hit[1][0] is y and hit[1][1] is m and hit[1][2] is d:
        return hit[0]
    return days_before_year(y) + days_before_month(y, m) + d


def memo_valid(y, m, d):
    hit = _ORDMEMO.get((id(y), id(m), id(d)))
    return hit is not None and hit[1][0] is y and hit[1][1] is m and hit[1][2] is d


def ord2ymd(n):
    """CPython's ord_to_ymd, verbatim."""
    r = _ord2ymd_raw(n)
    if is_sym(*r):
        _ORDMEMO[(id(r[0]), id(r[1]), id(r[2]))] = (n, r)
    return r


def _ord2ymd_raw(n):
    n = n - 1
    n400, n = divmod(n, 146097)
    n100, n = divmod(n, 36524)
    n4, n = divmod(n, 1461)
    n1, n = divmod(n, 365)
    year = n400 * 400 + n100 * 100 + n4 * 4 + n1 + 1
    last = OR(n1 == 4, n100 == 4)
    leap = AND(n1 == 3, OR(n4 != 24, n100 == 3))
    lp = ite(leap, 1, 0)
    doy = n + 1
    month = 12
    dbm = DBM[11] + lp
    for i in range(11, 0, -1):
        end_i = DBM[i] + (lp if i >= 2 else 0)
        c = doy <= end_i
        month = ite(c, i, month)
        dbm = ite(c, (DBM[i - 1] + (lp if i - 1 >= 2 else 0)), dbm)
    day = doy - dbm
    return ite(last, year - 1, year), ite(last, 12, month), ite(last, 31, day)


def succ_day(y, m, d):
    """(y, m, d) + 1 day on the fields (no ordinal round trip); == ord2ymd(ymd2ord(y,m,d)+1), which is
    discharged as a kernel obligation by the C15 check ('model lemma' cases)"""
    last = d == days_in_month(y, m)
    dec = m == 12
    return ite(AND(last, dec), y + 1, y), ite(last, ite(dec, 1, m + 1), m), ite(last, 1, d + 1)


def pred_day(y, m, d):
    first = d == 1
    jan = m == 1
    yp, mp = ite(jan, y - 1, y), ite(jan, 12, m - 1)
    return ite(first, yp, y), ite(first, mp, m), ite(first, days_in_month(yp, mp), d - 1)


def memo_put(triple, n):
    if is_sym(*triple):
        _ORDMEMO[(id(triple[0]), id(triple[1]), id(triple[2]))] = (n, triple)


def sym_year(name, lo=MINYEAR, hi=MAXYEAR):
    """Symbolic year as mixed-radix digits of (year-1) = 400c+100b+4a+e.  Digit ranges are
    tightened as far as lo..hi allows (windows inside one 400/100/4-year block give tight
    interval bounds, which the float model needs)."""
    l, h = lo - 1, hi - 1
    c_lo, c_hi = l // 400, h // 400
    b_lo, b_hi, a_lo, a_hi, e_lo, e_hi = 0, 3, 0, 24, 0, 3
    if c_lo == c_hi:
        l1, h1 = l - 400 * c_lo, h - 400 * c_lo
        b_lo, b_hi = l1 // 100, h1 // 100
        if b_lo == b_hi:
            l2, h2 = l1 - 100 * b_lo, h1 - 100 * b_lo
            a_lo, a_hi = l2 // 4, h2 // 4
            if a_lo == a_hi:
                e_lo, e_hi = l2 - 4 * a_lo, h2 - 4 * a_lo
    c = sym_int(name + "_c", c_lo, c_hi)
    b = sym_int(name + "_b", b_lo, b_hi)
    a = sym_int(name + "_a", a_lo, a_hi)
    e = sym_int(name + "_e", e_lo, e_hi)
    y = c * 400 + b * 100 + a * 4 + e + 1
    eng().assume(AND(y >= lo, y <= hi))
    if lo == hi:
        return lo            # single-year window: concrete (the digit inputs exist for the replay model)
    return y


def year_from_digits(vals, name):
    return 400 * vals[name + "_c"] + 100 * vals[name + "_b"] + 4 * vals[name + "_a"] + vals[name + "_e"] + 1


def valid_date(y, m, d):
    return AND(y >= MINYEAR, y <= MAXYEAR, m >= 1, m <= 12, d >= 1, d <= days_in_month(y, m))


def weekday(ordinal):
    """Monday == 0"""
    return (ordinal + 6) % 7


def isoweekday(ordinal):
    return (ordinal + 6) % 7 + 1


def iso_week1_monday(y):
    """ordinal of the Monday starting ISO week 1 of year y (CPython's iso_week1_monday)."""
    first_day = ymd2ord(y, 1, 1)
    first_weekday = (first_day + 6) % 7
    week1_monday = first_day - first_weekday
    return ite(first_weekday > 3, week1_monday + 7, week1_monday)


def isocalendar(y, m, d):
    """(iso_year, iso_week, iso_weekday) -- CPython algorithm."""
    week1 = iso_week1_monday(y)
    today = ymd2ord(y, m, d)
    week, day = divmod(today - week1, 7)
    prev = week < 0
    week1p = iso_week1_monday(y - 1)
    week_p, day_p = divmod(today - week1p, 7)
    nxt = AND(week >= 52, today >= iso_week1_monday(y + 1))
    iy = ite(prev, y - 1, ite(nxt, y + 1, y))
    iw = ite(prev, week_p, ite(nxt, 0, week))
    idd = ite(prev, day_p, day)
    return iy, iw + 1, idd + 1


def month_add(y, m, delta_months):
    """(year, month) after adding a signed number of months."""
    idx = y * 12 + (m - 1) + delta_months
    return idx // 12, idx % 12 + 1


def clamp_day(y, m, d):
    dim = days_in_month(y, m)
    return ite(d <= dim, d, dim)


def sod(h, mi, s):
    return h * 3600 + mi * 60 + s


def wall_seconds(y, m, d, h, mi, s):
    return ymd2ord(y, m, d) * 86400 + sod(h, mi, s)


def epoch_us_from_wall(y, m, d, h, mi, s, us, off):
    """integer microseconds since 1970-01-01T00:00Z of a wall time with utc offset `off` s."""
    return ((ymd2ord(y, m, d) - EPOCH_ORD) * 86400 + sod(h, mi, s) - off) * 1000000 + us
