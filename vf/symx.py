"""symx -- native symbolic execution of real Python code through proxy values.

SInt   : symbolic integer in linear normal form over z3 Int atoms, with interval bounds.
SBool  : symbolic boolean (z3 Bool); bool(SBool) asks the engine for a branch decision.
SFloat : IEEE double modelled as  N/D + eps  with N an SInt, D a constant and eps an
         *interval* error (all admissible roundings at once; no solver atom).
Engine : re-execution DFS over branch decisions; z3 decides feasibility and claims.

The same helper functions (AND/OR/NOT/IMPLIES/ite/table) work on plain Python values, so a
harness written against them can be replayed concretely on the unmodified library.
"""
from __future__ import annotations

import time
from fractions import Fraction

import z3

import os as _os
_DEBUG = int(_os.environ.get('VF_DEBUG', '0'))


class Unmodelled(Exception):
    """The code under analysis did something the proxies cannot represent."""


class PathAbort(BaseException):
    """Path is outside the harness's assumptions (or infeasible)."""


class DepthExceeded(BaseException):
    pass


# --------------------------------------------------------------------------- engine
class Engine:
    cur: "Engine | None" = None

    def __init__(self, max_decisions=600, branch_timeout_ms=2000, claim_timeout_ms=60000,
                 max_paths=200000, wall_budget_s=None):
        self.solver = z3.Solver()
        self.solver.set("timeout", branch_timeout_ms)
        self.claim_timeout_ms = claim_timeout_ms
        self.plan = []
        self.pos = 0
        self.max_decisions = max_decisions
        self.max_paths = max_paths
        self.wall_budget_s = wall_budget_s
        self.bounds = {}        # atom id -> (lo, hi)
        self.keep = []          # keep z3 asts alive (ids are reused otherwise)
        self.stats = dict(paths=0, decisions=0, branch_queries=0, claim_queries=0, solver_s=0.0,
                          unknown_branches=0, claims_unsat=0, claims_sat=0, claims_unknown=0,
                          claims_trivial=0, depth_hits=0, unmodelled=0, aborted=0)
        self.pc = []
        self.inputs = {}        # name -> z3 var (per path, redeclared deterministically)
        self.input_bounds = {}  # name -> (lo, hi) | "bool"  (union over all paths; used for the concrete probes)
        self.path = None
        self._model = None

    # -- atoms
    def atom(self, expr, lo=None, hi=None):
        i = expr.get_id()
        if i not in self.bounds:
            self.keep.append(expr)
            self.bounds[i] = (lo, hi)
        return i

    def _check(self, *extra):
        t = time.time()
        self.stats["branch_queries"] += 1
        r = self.solver.check(*extra)
        self.stats["solver_s"] += time.time() - t
        if _DEBUG and time.time() - t > 1.5:
            import sys as _s
            print(f"slow branch query: {r} {time.time() - t:.1f}s", file=_s.stderr, flush=True)
        return r

    def assume(self, expr):
        if isinstance(expr, bool):
            if not expr:
                raise PathAbort()
            return
        if isinstance(expr, SBool):
            expr = expr.e
        if self._model is not None and self._model_says(expr) is not True:
            self._model = None
        self.solver.add(expr)
        self.pc.append(expr)

    def _model_says(self, expr):
        """True/False if the cached model of the current PC decides expr, else None"""
        m = self._model
        if m is None:
            return None
        try:
            v = m.eval(expr, model_completion=True)
        except z3.Z3Exception:
            return None
        if z3.is_true(v):
            return True
        if z3.is_false(v):
            return False
        return None

    def _check_model(self, *extra):
        r = self._check(*extra)
        m = None
        if r == z3.sat:
            try:
                m = self.solver.model()
            except z3.Z3Exception:
                m = None
        return r, m

    def decide(self, expr):
        expr = z3.simplify(expr)
        if z3.is_true(expr):
            return True
        if z3.is_false(expr):
            return False
        if self.pos < len(self.plan):
            taken = self.plan[self.pos][0]
            if self._model is not None and self._model_says(expr) is not taken:
                self._model = None            # cached model no longer satisfies the PC
        else:
            if len(self.plan) >= self.max_decisions:
                raise DepthExceeded()
            if self._model is None:
                r0, self._model = self._check_model()
                if r0 == z3.unsat:
                    raise PathAbort()
            says = self._model_says(expr)
            if says is True:
                rt = z3.sat
                rf, mf = self._check_model(z3.Not(expr))
            elif says is False:
                rf = z3.sat
                rt, mt = self._check_model(expr)
                if rt == z3.sat:
                    self._model = mt
                elif rt == z3.unknown:
                    self._model = None
            else:
                rt, mt = self._check_model(expr)
                rf = None
                if rt == z3.sat:
                    self._model = mt
                else:
                    self._model = None
            if rt == z3.unsat:
                if rf is None:
                    rf, mf = self._check_model(z3.Not(expr))
                    if rf == z3.sat:
                        self._model = mf
                if rf == z3.unsat:
                    raise PathAbort()           # PC itself is infeasible
                taken = False
                self.plan.append([False, False])
            else:
                if rt == z3.unknown:
                    self.stats["unknown_branches"] += 1
                if rf is None:
                    rf, mf = self._check_model(z3.Not(expr))
                if rf == z3.unknown:
                    self.stats["unknown_branches"] += 1
                taken = True
                self.plan.append([True, rf != z3.unsat])
        self.pos += 1
        self.stats["decisions"] += 1
        c = expr if taken else z3.Not(expr)
        self.solver.add(c)
        self.pc.append(c)
        return taken

    def run(self, fn, on_path=None):
        """Explore all paths of fn(); fn calls claim()/observe()/reach().

        Returns the list of PathRecord."""
        self.plan = []
        records = []
        t0 = time.time()
        while True:
            self.solver.push()
            self.pos = 0
            self.pc = []
            self.bounds = {}
            self.keep = []
            self.inputs = {}
            self._model = None
            self._pending = []
            Engine.cur = self
            self.stats["paths"] += 1
            rec = PathRecord(self.stats["paths"])
            self.path = rec
            try:
                fn()
                rec.status = "ok"
            except PathAbort:
                rec.status = "abort"
                self.stats["aborted"] += 1
            except DepthExceeded:
                rec.status = "depth"
                self.stats["depth_hits"] += 1
            except Unmodelled as ex:
                rec.status = "unmodelled"
                rec.detail = str(ex)
                self.stats["unmodelled"] += 1
            rec.decisions = self.pos
            try:
                self._discharge()
            except z3.Z3Exception as ex:
                rec.status, rec.detail = "unmodelled", f"z3: {ex}"
            if rec.status in ("ok", "depth", "unmodelled") and (rec.want_model or rec.status != "ok"):
                # is this path's PC feasible at all?  (depth/unmodelled only matter if feasible)
                r = self._check()
                rec.feasible = str(r)
                if r == z3.sat:
                    rec.model = self._model_values(self.solver.model(), rec)
            if _DEBUG and self.stats["paths"] % _DEBUG == 0:
                import sys as _s
                st = self.stats
                print(f"[dbg] path {st['paths']} {rec.status} {rec.detail or ''} dec={st['decisions']} bq={st['branch_queries']} "
                      f"cq={st['claim_queries']} unsat={st['claims_unsat']} sat={st['claims_sat']} unk={st['claims_unknown']} "
                      f"fold={st['claims_trivial']} abort={st['aborted']} solver={st['solver_s']:.1f}s", file=_s.stderr, flush=True)
            if on_path is not None:
                on_path(rec)
            rec.observed_sym = None
            records.append(rec)
            self.solver.pop()
            while self.plan and not self.plan[-1][1]:
                self.plan.pop()
            if not self.plan:
                break
            self.plan[-1] = [False, False]
            if self.stats["paths"] >= self.max_paths or (
                    self.wall_budget_s and time.time() - t0 > self.wall_budget_s):
                self.stats["truncated"] = True
                break
        Engine.cur = None
        return records

    def _model_values(self, model, rec):
        vals = {}
        for name, var in self.inputs.items():
            v = model.eval(var, model_completion=True)
            vals[name] = v.as_long() if z3.is_int_value(v) else z3.is_true(v)
        # evaluate recorded observations under this model
        obs = []
        for label, val in rec.observed_sym or []:
            obs.append([label, _eval_obs(model, val)])
        rec.observed = obs
        return vals

    def claim(self, label, cond):
        """cond: SBool | bool.  Claims are queued and discharged at the end of the path (PC only
        grows along a path and every continuation is explored, so this covers the same inputs):
        first all together as one query  PC && !(c1 && ... && cn); only if that is not unsat,
        one by one to find the failing claim and its model."""
        rec = self.path
        if isinstance(cond, bool) and cond:
            self.stats["claims_trivial"] += 1
            rec.claims.append((label, "unsat", None))
            return
        self._pending.append((label, cond))

    def _query(self, negs, label):
        s = z3.Solver()
        s.set("timeout", self.claim_timeout_ms)
        s.add(*self.pc)
        s.add(*negs)
        t = time.time()
        self.stats["claim_queries"] += 1
        r = s.check()
        dt = time.time() - t
        self.stats["solver_s"] += dt
        self.stats["claim_s"] = self.stats.get("claim_s", 0.0) + dt
        if _DEBUG and dt > 3:
            import sys as _s
            print(f"slow claim {label!r}: {r} {dt:.1f}s", file=_s.stderr, flush=True)
        return r, s

    def _discharge(self):
        rec = self.path
        pend, self._pending = self._pending, []
        if not pend:
            return
        if len(pend) > 1 and all(not isinstance(c, bool) for _, c in pend):
            r, _ = self._query([z3.Not(z3.And(*[c.e for _, c in pend]))], "all claims of the path")
            if r == z3.unsat:
                for label, _ in pend:
                    self.stats["claims_unsat"] += 1
                    rec.claims.append((label, "unsat", None))
                return
        for label, cond in pend:
            negs = [] if isinstance(cond, bool) else [z3.Not(cond.e)]
            r, s = self._query(negs, label)
            if r == z3.unsat:
                self.stats["claims_unsat"] += 1
                rec.claims.append((label, "unsat", None))
            elif r == z3.sat:
                self.stats["claims_sat"] += 1
                m = s.model()
                vals = {}
                for name, var in self.inputs.items():
                    v = m.eval(var, model_completion=True)
                    vals[name] = v.as_long() if z3.is_int_value(v) else z3.is_true(v)
                rec.claims.append((label, "sat", vals))
            else:
                self.stats["claims_unknown"] += 1
                rec.claims.append((label, "unknown", None))

    def reach(self, label, cond=True):
        """Reachability witness: is PC && cond satisfiable on this path?"""
        rec = self.path
        if isinstance(cond, bool):
            if not cond:
                return
            r = self._check()
        else:
            r = self._check(cond.e)
        if r == z3.sat:
            rec.reached.append(label)
            if len(rec.reach_models) < 8:
                try:
                    m = self.solver.model()
                    vals = {}
                    for name, var in self.inputs.items():
                        v = m.eval(var, model_completion=True)
                        vals[name] = v.as_long() if z3.is_int_value(v) else z3.is_true(v)
                    rec.reach_models.append((label, vals))
                except z3.Z3Exception:
                    pass


class PathRecord:
    __slots__ = ("n", "status", "detail", "claims", "reached", "observed_sym", "observed",
                 "model", "feasible", "decisions", "want_model", "reach_models", "sub")

    def __init__(self, n):
        self.n = n
        self.status = None
        self.detail = None
        self.claims = []
        self.reached = []
        self.observed_sym = []
        self.observed = None
        self.model = None
        self.feasible = None
        self.decisions = 0
        self.want_model = False
        self.reach_models = []


def _eval_obs(model, val):
    if isinstance(val, SInt):
        return model.eval(val.z(), model_completion=True).as_long()
    if isinstance(val, SBool):
        return z3.is_true(model.eval(val.e, model_completion=True))
    if isinstance(val, (list, tuple)):
        return [_eval_obs(model, v) for v in val]
    if isinstance(val, str):
        return eval_str(model, val)
    return val


def eng() -> Engine:
    return Engine.cur


# --------------------------------------------------------------------------- booleans
class SBool:
    __slots__ = ("e",)

    def __init__(self, e):
        self.e = e

    def __bool__(self):
        return eng().decide(self.e)

    def __invert__(self):
        return SBool(z3.Not(self.e))

    def __and__(self, o):
        if isinstance(o, SBool):
            return SBool(z3.And(self.e, o.e))
        return self if o else False

    __rand__ = __and__

    def __or__(self, o):
        if isinstance(o, SBool):
            return SBool(z3.Or(self.e, o.e))
        return True if o else self

    __ror__ = __or__

    def __eq__(self, o):
        if isinstance(o, SBool):
            return SBool(self.e == o.e)
        return self if o else ~self

    def __ne__(self, o):
        return NOT(self.__eq__(o))

    __hash__ = None

    # bools are ints in Python: arithmetic lifts to a 0/1 SInt
    def _i(self):
        return ite(self, 1, 0)

    def __add__(self, o): return self._i() + o
    def __radd__(self, o): return o + self._i()
    def __sub__(self, o): return self._i() - o
    def __rsub__(self, o): return o - self._i()
    def __mul__(self, o): return self._i() * o
    def __rmul__(self, o): return o * self._i()
    def __index__(self): return 1 if eng().decide(self.e) else 0

    def __repr__(self):
        return f"SBool<{self.e}>"


def NOT(x):
    return ~x if isinstance(x, SBool) else (not x)


def AND(*xs):
    out = True
    for x in xs:
        if isinstance(x, SBool):
            out = x if out is True else (out & x)
        elif not x:
            return False
    return out


def OR(*xs):
    out = False
    for x in xs:
        if isinstance(x, SBool):
            out = x if out is False else (out | x)
        elif x:
            return True
    return out


def IMPLIES(a, b):
    return OR(NOT(a), b)


def IFF(a, b):
    if isinstance(a, SBool) or isinstance(b, SBool):
        return AND(IMPLIES(a, b), IMPLIES(b, a))
    return bool(a) == bool(b)


# --------------------------------------------------------------------------- integers
class SInt:
    """sum(coeff * atom) + const, atoms are z3 Int expressions."""

    __slots__ = ("t", "c")

    def __init__(self, t=None, c=0):
        self.t = t or {}
        self.c = c

    # -- construction
    @staticmethod
    def var(expr, lo=None, hi=None):
        i = eng().atom(expr, lo, hi)
        return SInt({i: (expr, 1)}, 0)

    @staticmethod
    def lift(x):
        if isinstance(x, SInt):
            return x
        if isinstance(x, bool):
            return SInt({}, int(x))
        if isinstance(x, int):
            return SInt({}, x)
        if isinstance(x, SBool):
            return ite(x, 1, 0)
        raise Unmodelled(f"cannot lift {type(x).__name__} to SInt")

    def is_const(self):
        return not self.t

    def bounds(self):
        lo = hi = self.c
        B = eng().bounds
        for i, (v, k) in self.t.items():
            b = B.get(i)
            if b is None or b[0] is None or b[1] is None:
                return (None, None)
            a1, a2 = k * b[0], k * b[1]
            lo += min(a1, a2)
            hi += max(a1, a2)
        return lo, hi

    def z(self):
        e = z3.IntVal(self.c) if (self.c or not self.t) else None
        for v, k in self.t.values():
            term = v if k == 1 else k * v
            e = term if e is None else e + term
        return e

    # -- arithmetic
    def __add__(self, o):
        if type(o) is int and o == 0:
            return self                  # identity-preserving: keeps the ord<->ymd provenance memo alive
        if isinstance(o, SFloat):
            return NotImplemented
        if isinstance(o, float):
            return SFloat.of(self) + o
        if isinstance(o, SBool):
            o = ite(o, 1, 0)
        if not isinstance(o, (int, SInt)):
            return NotImplemented
        o = SInt.lift(o)
        t = dict(self.t)
        for i, (v, k) in o.t.items():
            if i in t:
                nk = t[i][1] + k
                if nk:
                    t[i] = (v, nk)
                else:
                    del t[i]
            else:
                t[i] = (v, k)
        return _norm(SInt(t, self.c + o.c))

    __radd__ = __add__

    def __neg__(self):
        return SInt({i: (v, -k) for i, (v, k) in self.t.items()}, -self.c)

    def __pos__(self):
        return self

    def __sub__(self, o):
        if type(o) is int and o == 0:
            return self
        if isinstance(o, SFloat):
            return NotImplemented
        if isinstance(o, float):
            return SFloat.of(self) - o
        if isinstance(o, SBool):
            o = ite(o, 1, 0)
        if not isinstance(o, (int, SInt)):
            return NotImplemented
        return self + (-SInt.lift(o))

    def __rsub__(self, o):
        if isinstance(o, float):
            return o - SFloat.of(self)
        if isinstance(o, SBool):
            o = ite(o, 1, 0)
        if not isinstance(o, (int, SInt)):
            return NotImplemented
        return SInt.lift(o) + (-self)

    def __mul__(self, o):
        if isinstance(o, SFloat):
            return NotImplemented
        if isinstance(o, float):
            return SFloat.of(self) * o
        if isinstance(o, SBool):
            o = ite(o, 1, 0)
        if not isinstance(o, (int, SInt)):
            return NotImplemented
        o = SInt.lift(o)
        if o.is_const():
            k = o.c
            if k == 1:
                return self
            if k == 0:
                return 0
            return _norm(SInt({i: (v, c * k) for i, (v, c) in self.t.items()}, self.c * k))
        if self.is_const():
            return o * self.c
        # keep arithmetic linear: case-split (fork) on a small-domain factor
        cands = []
        for x, other in ((self, o), (o, self)):
            lo, hi = x.bounds()
            if lo is not None and hi - lo <= 12:
                cands.append((hi - lo, x, other))
        if cands:
            cands.sort(key=lambda t: t[0])
            _, x, other = cands[0]
            return other * x.concretize()
        (l1, h1), (l2, h2) = self.bounds(), o.bounds()
        if l1 is None or l2 is None:
            return SInt.var(self.z() * o.z())
        cs = [l1 * l2, l1 * h2, h1 * l2, h1 * h2]
        return SInt.var(self.z() * o.z(), min(cs), max(cs))

    __rmul__ = __mul__

    def __pow__(self, o):
        if isinstance(o, int) and 0 <= o <= 4:
            r = 1
            for _ in range(o):
                r = r * self
            return r
        raise Unmodelled("symbolic power")

    def __rpow__(self, o):
        return o ** self.concretize()

    def __abs__(self):
        lo, hi = self.bounds()
        if lo is not None and lo >= 0:
            return self
        if hi is not None and hi <= 0:
            return -self
        # fork (usually already decided by the path condition): both sides stay linear
        if self >= 0:
            return self
        return -self

    def __truediv__(self, o):
        return SFloat.of(self) / o

    def __rtruediv__(self, o):
        return SFloat.of(o) / self

    def _divmod_const(self, k):
        if k < 0:
            q, r = (-self)._divmod_const(-k)
            return q, -r
        A = SInt()
        B = SInt()
        for i, (v, c) in self.t.items():
            q, r = divmod(c, k)
            if 2 * r > k:             # symmetric remainder keeps the residual's range small
                q, r = q + 1, r - k
            if q:
                A.t[i] = (v, q)
            if r:
                B.t[i] = (v, r)
        A.c, B.c = divmod(self.c, k)
        if not B.t:
            return _norm(A), B.c
        lo, hi = B.bounds()
        bz = B.z()
        if lo is not None:
            qlo, qhi = lo // k, hi // k
            if qlo == qhi:
                return _norm(A + qlo), _norm(B - qlo * k)
            if qhi - qlo <= 6:
                qe = z3.IntVal(qhi)
                for qq in range(qhi - 1, qlo - 1, -1):
                    qe = z3.If(bz < (qq + 1) * k, qq, qe)
                qv = SInt.var(qe, qlo, qhi)
                return _norm(A + qv), _norm(B - qv * k)
            qv = SInt.var(bz / k, qlo, qhi)
        else:
            qv = SInt.var(bz / k)
        rv = SInt.var(bz % k, 0, k - 1)
        return _norm(A + qv), rv

    def __divmod__(self, o):
        if isinstance(o, bool):
            o = int(o)
        if isinstance(o, int):
            if o == 0:
                raise ZeroDivisionError("integer division or modulo by zero")
            return self._divmod_const(o)
        if isinstance(o, SInt):
            if o.is_const():
                return self.__divmod__(o.c)
            if o == 0:
                raise ZeroDivisionError("integer division or modulo by zero")
            lo, hi = o.bounds()
            if lo is not None and hi - lo <= 12:
                return self.__divmod__(o.concretize())
            # symbolic divisor: python floor semantics from z3 euclidean div
            a, b = self.z(), o.z()
            q = a / b
            fq = z3.If(b > 0, q, z3.If(a == q * b, q, q - 1))
            (al, ah), (bl, bh) = self.bounds(), o.bounds()
            if al is None or bl is None:
                qv = SInt.var(fq)
                return qv, self - qv * o
            M = max(abs(al), abs(ah))
            B = max(abs(bl), abs(bh))
            qv = SInt.var(fq, -M - 1, M + 1)
            rv = SInt.var(a - fq * b, -B, B)          # python remainder: sign of the divisor, |r| < |b|
            return qv, rv
        if isinstance(o, (float, SFloat)):
            return divmod(SFloat.of(self), o)
        return NotImplemented

    def __rdivmod__(self, o):
        if isinstance(o, float):
            return divmod(SFloat.of(o), SFloat.of(self))
        return SInt.lift(o).__divmod__(self)

    def __floordiv__(self, o):
        r = self.__divmod__(o)
        return r if r is NotImplemented else r[0]

    def __rfloordiv__(self, o):
        return self.__rdivmod__(o)[0]

    def __mod__(self, o):
        r = self.__divmod__(o)
        return r if r is NotImplemented else r[1]

    def __rmod__(self, o):
        return self.__rdivmod__(o)[1]

    # -- comparisons (folded by interval bounds when possible)
    def _cmp(self, o, op):
        if isinstance(o, (float, SFloat)):
            return SFloat.of(self)._cmp(o, op)
        if isinstance(o, SBool):
            o = ite(o, 1, 0)
        if not isinstance(o, (int, SInt)):
            return NotImplemented
        d = self - o
        if isinstance(d, int):
            return op(d, 0)
        lo, hi = d.bounds()
        if lo is not None:
            a, b = op(lo, 0), op(hi, 0)
            if a and b:
                return True
            if not a and not b:
                return False
        return SBool(op(d.z(), 0))

    def __lt__(self, o):
        return self._cmp(o, _lt)

    def __le__(self, o):
        return self._cmp(o, _le)

    def __gt__(self, o):
        return self._cmp(o, _gt)

    def __ge__(self, o):
        return self._cmp(o, _ge)

    def __eq__(self, o):
        if isinstance(o, (float, SFloat)):
            return SFloat.of(self).__eq__(o)
        if isinstance(o, SBool):
            o = ite(o, 1, 0)
        if not isinstance(o, (int, SInt)):
            return False
        d = self - o
        if isinstance(d, int):
            return d == 0
        lo, hi = d.bounds()
        if lo is not None and (lo > 0 or hi < 0):
            return False
        return SBool(d.z() == 0)

    def __ne__(self, o):
        return NOT(self.__eq__(o))

    def __bool__(self):
        r = self != 0
        return r if isinstance(r, bool) else bool(r)

    def __hash__(self):
        return hash(self.concretize())

    def __index__(self):
        return self.concretize()

    def __floor__(self):
        return self

    __ceil__ = __trunc__ = __floor__

    def __round__(self, n=None):
        return self

    def concretize(self, cap=64):
        """Fork over the feasible values (deterministic order)."""
        if self.is_const():
            return self.c
        e = eng()
        lo, hi = self.bounds()
        if lo is None or hi - lo > cap:
            # tighten with the solver? keep it simple and explicit
            raise Unmodelled(f"concretize over unbounded/large domain [{lo},{hi}]")
        for v in range(lo, hi):
            r = self == v
            if r is True:
                return v
            if r is False:
                continue
            if e.decide(r.e):
                return v
        e.assume((self == hi))
        return hi

    def __repr__(self):
        return f"SInt<{self.z()}>"

    def __format__(self, spec):
        from . import shapes
        return shapes.format_sint(self, spec)

    def __str__(self):
        from . import shapes
        return shapes.format_sint(self, "")


def _lt(a, b): return a < b
def _le(a, b): return a <= b
def _gt(a, b): return a > b
def _ge(a, b): return a >= b


def _norm(s):
    if isinstance(s, SInt) and not s.t:
        return s.c
    return s


def ite(c, a, b):
    if isinstance(c, bool):
        return a if c else b
    if isinstance(a, SBool) or isinstance(b, SBool) or (isinstance(a, bool) and isinstance(b, bool)):
        return OR(AND(c, a), AND(NOT(c), b))
    if isinstance(a, (int, SInt)) and isinstance(b, (int, SInt)):
        if isinstance(a, int) and isinstance(b, int) and a == b:
            return a
        a, b = SInt.lift(a), SInt.lift(b)
        # structure-preserving: group terms by coefficient so that mixed-radix digit forms
        # (3600H+60M+S, 146097c+36524b+...) keep their radix structure through the ite
        ga, gb = _by_coeff(a), _by_coeff(b)
        if len(ga) > 1 or len(gb) > 1:
            out = 0
            for k in sorted(set(ga) | set(gb), key=lambda k: (k == 0, -abs(k))):
                xa, xb = ga.get(k, 0), gb.get(k, 0)
                if k == 0:
                    out = out + _ite1(c, xa, xb)
                else:
                    out = out + _ite1(c, xa, xb) * k
            return out
        return _ite1(c, a, b)
    return a if c else b


def _by_coeff(x):
    """{coefficient: SInt sum of its atoms}; the constant goes under key 0"""
    g = {}
    for i, (v, k) in x.t.items():
        d = g.setdefault(k, {})
        d[i] = (v, 1)
    out = {k: SInt(d, 0) for k, d in g.items()}
    if x.c:
        out[0] = x.c
    return out


def _ite1(c, a, b):
    if isinstance(a, int) and isinstance(b, int) and a == b:
        return a
    a, b = SInt.lift(a), SInt.lift(b)
    if a.c == b.c and len(a.t) == len(b.t) and all(i in b.t and b.t[i][1] == k for i, (v, k) in a.t.items()):
        return _norm(a)
    (l1, h1), (l2, h2) = a.bounds(), b.bounds()
    if l1 is None or l2 is None:
        return SInt.var(z3.If(c.e, a.z(), b.z()))
    return SInt.var(z3.If(c.e, a.z(), b.z()), min(l1, l2), max(h1, h2))


def table(idx, tbl, lo=0):
    """tbl[idx-lo] as an ite-chain (idx symbolic in [lo, lo+len-1])."""
    if isinstance(idx, int):
        return tbl[idx - lo]
    r = tbl[-1]
    for i in range(len(tbl) - 2, -1, -1):
        r = ite(idx == lo + i, tbl[i], r)
    return r


class SymTuple(tuple):
    """A constant table of the repository (DAYS_PER_MONTHS, ...) whose lookup with a symbolic
    index is an ite-chain over the entries instead of a fork per entry (same semantics)."""

    def __getitem__(self, i):
        if isinstance(i, SBool):
            i = ite(i, 1, 0)
        if isinstance(i, SInt):
            n = len(self)
            items = list(tuple.__iter__(self))
            if all(isinstance(v, int) and not isinstance(v, bool) for v in items):
                lo, hi = i.bounds()
                if lo is not None and 0 <= lo and hi < n:
                    return table(i - lo, items[lo:hi + 1], 0)
                # interval bounds do not know the path condition: let the solver decide the range
                if AND(i >= 0, i < n):
                    return table(i, items, 0)
            i = i.concretize()
        return tuple.__getitem__(self, i)


class SymDict:
    """dict whose keys may be symbolic ints: lookups compare with == (forking when undecided),
    which is exactly the semantics of hashing equal keys.  Used for pendulum.tz._tz_cache."""

    def __init__(self):
        self._items = []

    def _find(self, key):
        for i, (k, v) in enumerate(self._items):
            r = (k == key)
            if r if isinstance(r, bool) else bool(r):
                return i
        return -1

    def __contains__(self, key):
        return self._find(key) >= 0

    def __getitem__(self, key):
        i = self._find(key)
        if i < 0:
            raise KeyError(key)
        return self._items[i][1]

    def __setitem__(self, key, value):
        i = self._find(key)
        if i >= 0:
            self._items[i] = (key, value)
        else:
            self._items.append((key, value))

    def get(self, key, default=None):
        i = self._find(key)
        return default if i < 0 else self._items[i][1]

    def clear(self):
        self._items.clear()

    def __len__(self):
        return len(self._items)


def symtuple(t):
    if isinstance(t, tuple) and not isinstance(t, SymTuple):
        return SymTuple(symtuple(x) for x in t)
    return t


def smin(a, b):
    return ite(a <= b, a, b)


def smax(a, b):
    return ite(a >= b, a, b)


def sym_int(name, lo, hi):
    e = eng()
    v = z3.Int(name)
    e.inputs[name] = v
    e.input_bounds[name] = (lo, hi)
    e.solver.add(v >= lo, v <= hi)
    e._model = None
    e.pc.append(v >= lo)
    e.pc.append(v <= hi)
    return SInt.var(v, lo, hi)


def sym_bool(name):
    e = eng()
    v = z3.Bool(name)
    e.inputs[name] = v
    e.input_bounds[name] = "bool"
    return SBool(v)


def fresh_int(prefix, lo, hi):
    """Internal (non-input) integer atom with bounds."""
    e = eng()
    n = e.__dict__.setdefault("_fresh", 0)
    e._fresh = n + 1
    v = z3.Int(f"{prefix}!{e.stats['paths']}!{n}")
    e.solver.add(v >= lo, v <= hi)
    e._model = None
    e.pc.append(v >= lo)
    e.pc.append(v <= hi)
    return SInt.var(v, lo, hi)


def is_sym(*xs):
    return any(isinstance(x, (SInt, SBool, SFloat)) for x in xs)


# --------------------------------------------------------------------------- floats
_TWO53 = 2 ** 53


def _ulp_half(maxabs):
    """Upper bound of half an ulp for doubles of magnitude <= maxabs."""
    if maxabs == 0:
        return Fraction(0)
    m = Fraction(maxabs)
    e = 0
    # find smallest e with 2^e > m   (value in [2^(e-1), 2^e) has ulp 2^(e-1-52))
    p = Fraction(1)
    if m >= 1:
        while p <= m:
            p *= 2
            e += 1
    else:
        while p / 2 > m:
            p /= 2
            e -= 1
    return Fraction(2) ** (e - 1 - 52) / 2


class SFloat:
    """value = n/d + eps,  eps in [elo, ehi];  `zint`: eps == 0 whenever n/d is an integer."""

    __slots__ = ("n", "d", "elo", "ehi", "zint")

    def __init__(self, n, d=1, elo=0, ehi=0, zint=True):
        self.n = n
        self.d = d
        self.elo = Fraction(elo)
        self.ehi = Fraction(ehi)
        self.zint = zint

    @staticmethod
    def ratio(n, d):
        """the correctly rounded quotient of two exact integers (int / int true division)"""
        r = SFloat(n, 1)
        return r._rounded(n, d, 0, 0, True)

    @staticmethod
    def of(x):
        if isinstance(x, SFloat):
            return x
        if isinstance(x, SBool):
            x = ite(x, 1, 0)
        if isinstance(x, bool):
            x = int(x)
        if isinstance(x, int):
            if abs(x) > _TWO53:
                raise Unmodelled("int too large for exact float")
            return SFloat(x, 1)
        if isinstance(x, SInt):
            lo, hi = x.bounds()
            if lo is None or max(abs(lo), abs(hi)) > _TWO53:
                # interval bounds are loose (digit atoms): ask the solver once
                e = eng()
                z = x.z()
                if e._check(z3.Or(z > _TWO53, z < -_TWO53)) != z3.unsat:
                    raise Unmodelled("SInt not provably exact as float")
            return SFloat(x, 1)
        if isinstance(x, float):
            fr = Fraction(x)
            return SFloat(fr.numerator, fr.denominator)
        raise Unmodelled(f"cannot lift {type(x).__name__} to SFloat")

    # helpers
    def exact(self):
        return self.elo == 0 and self.ehi == 0

    def nbounds(self):
        if isinstance(self.n, int):
            return self.n, self.n
        lo, hi = self.n.bounds()
        if lo is None:
            raise Unmodelled("unbounded float")
        return lo, hi

    def maxabs(self):
        lo, hi = self.nbounds()
        m = max(abs(lo), abs(hi))
        if self.d == 1:
            m = min(m, _TWO53)       # SFloat.of() proved |n| <= 2^53 when the interval bounds are looser
        return Fraction(m, self.d) + max(abs(self.elo), abs(self.ehi))

    def is_concrete(self):
        return isinstance(self.n, int) and self.exact()

    def concrete(self):
        return self.n / self.d

    def _rounded(self, n, d, elo, ehi, zint):
        """n/d + [elo,ehi] then one IEEE rounding of the result."""
        g = _gcd_const(n, d)
        if g > 1:
            n, d = _exact_div(n, g), d // g
        r = SFloat(n, d, elo, ehi, zint)
        if isinstance(n, int) and elo == 0 and ehi == 0:
            f = Fraction(n, d)
            try:
                exactly = Fraction(float(f)) == f
            except OverflowError:
                raise Unmodelled("float overflow")
            if exactly:
                return r
        if d == 1 and elo == 0 and ehi == 0:
            lo, hi = r.nbounds()
            if max(abs(lo), abs(hi)) <= _TWO53:
                return r                     # integers below 2^53 are exact
        ma = r.maxabs()
        if ma > _TWO53:
            r.zint = False
        h = _ulp_half(ma)
        r.elo -= h
        r.ehi += h
        return r

    def __neg__(self):
        return SFloat(-self.n, self.d, -self.ehi, -self.elo, self.zint)

    def __pos__(self):
        return self

    def __abs__(self):
        s = self._sign_fork()
        return self if s >= 0 else -self

    def _sign_fork(self):
        """-1, 0 (only if exact zero) or 1; forks."""
        if self < 0:
            return -1
        return 1

    def __add__(self, o):
        try:
            o = SFloat.of(o)
        except Unmodelled:
            return NotImplemented
        if o.is_concrete() and o.n == 0:
            return self
        if self.is_concrete() and self.n == 0:
            return o
        d = self.d * o.d // _gcd(self.d, o.d)
        n = self.n * (d // self.d) + o.n * (d // o.d)
        zint = self.zint and o.zint and (self.d == 1 or o.d == 1)
        return self._rounded(n, d, self.elo + o.elo, self.ehi + o.ehi, zint)

    __radd__ = __add__

    def __sub__(self, o):
        try:
            o = SFloat.of(o)
        except Unmodelled:
            return NotImplemented
        return self + (-o)

    def __rsub__(self, o):
        return SFloat.of(o) + (-self)

    def __mul__(self, o):
        try:
            o = SFloat.of(o)
        except Unmodelled:
            return NotImplemented
        a, b = self, o
        if not isinstance(b.n, int):
            a, b = b, a
        if isinstance(b.n, int) and b.exact():
            k = Fraction(b.n, b.d)
            if k == 0:
                return SFloat(0, 1)
            if k == 1:
                return a
            if k == -1:
                return -a
            n = a.n * k.numerator
            d = a.d * k.denominator
            e1, e2 = a.elo * k, a.ehi * k
            return a._rounded(n, d, min(e1, e2), max(e1, e2), a.zint and a.d == 1 and k.denominator == 1)
        if isinstance(a.n, int) or isinstance(b.n, int):
            # concrete-with-error times symbolic: not needed so far
            raise Unmodelled("float product with inexact constant")
        # symbolic * symbolic: fork on a small-domain integral factor
        for x, y in ((a, b), (b, a)):
            if x.d == 1 and x.exact():
                lo, hi = x.nbounds()
                if hi - lo <= 12:
                    return y * SInt.lift(x.n).concretize()
        raise Unmodelled("non-linear float product")

    __rmul__ = __mul__

    def __truediv__(self, o):
        try:
            o = SFloat.of(o)
        except Unmodelled:
            return NotImplemented
        if isinstance(o.n, int) and o.exact():
            if o.n == 0:
                raise ZeroDivisionError("float division by zero")
            k = Fraction(o.d, o.n)
            n = self.n * k.numerator
            d = self.d * k.denominator
            if d < 0:
                n, d = -n, -d
            e1, e2 = self.elo * k, self.ehi * k
            # exact rational quotient that happens to be an integer below 2^53 is representable
            return self._rounded(n, d, min(e1, e2), max(e1, e2), (self.zint and o.d == 1) or self.exact())
        raise Unmodelled("float division by symbolic value")

    def __rtruediv__(self, o):
        return SFloat.of(o) / self

    # floor of n/d + eps as an SInt
    def floor(self):
        q, r = divmod(self.n, self.d) if self.d != 1 else (self.n, 0)
        if self.exact():
            return q
        if max(abs(self.elo), abs(self.ehi)) * self.d >= 1:
            # error spans several integers: any k with  k <= n/d + ehi  and  k + 1 > n/d + elo  (sound over-approximation)
            lo, hi = self.nbounds()
            D = self.d
            E_hi, E_lo = _ceil_frac(self.ehi * D), _floor_frac(self.elo * D)
            k = fresh_int("flr", (lo + E_lo) // D - 1, (hi + E_hi) // D + 1)
            eng().assume(AND(k * D <= self.n + E_hi, (k + 1) * D > self.n + E_lo))
            return k
        adj_down = self.elo < 0 and not (self.zint)
        if self.elo < 0 and self.zint:
            # eps may only push below an integer if n/d is integral, where eps == 0
            adj_down = False
        # eps > 0 cannot reach the next integer because r/d <= 1 - 1/d and eps < 1/d
        if adj_down:
            b = fresh_int("flr", 0, 1)
            eng().assume(IMPLIES(b == 1, r == 0))
            return q - b
        return q

    def trunc(self):
        if self >= 0:
            return self.floor()
        return -((-self).floor())

    def ceil(self):
        return -((-self).floor())

    __floor__ = floor
    __ceil__ = ceil
    __trunc__ = trunc

    def __round__(self, nd=None):
        if nd is not None:
            raise Unmodelled("round(x, n)")
        if self.exact() and self.d == 1:
            return self.n
        # any integer k with |x - k| <= 1/2 (ties cannot be decided under an error model)
        q, r = divmod(self.n, self.d) if self.d != 1 else (self.n, 0)
        # x = q + r/d + eps ; candidates q, q+1 (and q-1 if eps<0 and r == 0)
        k = fresh_int("rnd", -1, 1)
        # |(r/d + eps) - k| <= 1/2  for all eps would be too strong: we need "exists rounding":
        # sound over-approximation: k admissible if there is eps in [elo,ehi] with |r/d+eps-k|<=1/2
        #   k - 1/2 - ehi <= r/d <= k + 1/2 - elo
        D = self.d
        lo_num = lambda kk: (Fraction(kk) - Fraction(1, 2) - self.ehi) * D
        hi_num = lambda kk: (Fraction(kk) + Fraction(1, 2) - self.elo) * D
        conds = []
        for kk in (-1, 0, 1):
            lo_i = _ceil_frac(lo_num(kk))
            hi_i = _floor_frac(hi_num(kk))
            conds.append(IMPLIES(k == kk, AND(r >= lo_i, r <= hi_i)))
        eng().assume(AND(*conds))
        return q + k

    def __int__(self):
        raise Unmodelled("int(SFloat) must go through the int shim")

    def __divmod__(self, o):
        o = SFloat.of(o)
        if self.is_concrete() and self.n == 0:
            if o != 0:
                return SFloat(0, 1), SFloat(0, 1)
            raise ZeroDivisionError("float divmod()")
        if not (isinstance(o.n, int) and o.exact() and o.n > 0):
            raise Unmodelled("float divmod by non-constant/non-positive")
        a, b = o.n, o.d                      # divisor k = a/b > 0
        nonneg = self >= 0
        if not isinstance(nonneg, bool):
            nonneg = bool(nonneg)            # fork: python adjusts the sign of fmod's result
        # q = floor(x / k)
        sc = SFloat(self.n * b, self.d * a, self.elo * b / a, self.ehi * b / a, self.zint and b == 1)
        q = sc.floor()
        qb = SInt.lift(q).bounds()
        if qb[0] is None or max(abs(qb[0]), abs(qb[1])) > _TWO53:
            raise Unmodelled("float floor quotient not provably exact")
        rem = SFloat(self.n * b - q * (a * self.d), self.d * b, self.elo, self.ehi, self.zint and b == 1)
        g = _gcd_const(rem.n, rem.d)
        if g > 1:
            rem.n, rem.d = _exact_div(rem.n, g), rem.d // g
        if not nonneg:
            # fmod(x, k) is negative and python adds k back: one more rounding
            h = _ulp_half(Fraction(a, b))
            rem.elo -= h
            rem.ehi += h
            rem.zint = False
        return SFloat.of(q), rem

    def __rdivmod__(self, o):
        return divmod(SFloat.of(o), self)

    def __floordiv__(self, o):
        return divmod(self, o)[0]

    def __mod__(self, o):
        o = SFloat.of(o)
        if isinstance(o.n, int) and o.exact() and o.n < 0:
            # python: x % -k  == -((-x) % k)
            return -((-self) % (-o))
        return divmod(self, o)[1]

    def __rmod__(self, o):
        return SFloat.of(o) % self

    # comparisons
    def _cmp(self, o, op):
        try:
            o = SFloat.of(o)
        except Unmodelled:
            return NotImplemented
        L = self.d * o.d // _gcd(self.d, o.d)
        m = self.n * (L // self.d) - o.n * (L // o.d)       # exact difference * L
        elo, ehi = (self.elo - o.ehi) * L, (self.ehi - o.elo) * L
        if elo == 0 and ehi == 0:
            return _icmp(m, 0, op)
        if max(abs(elo), abs(ehi)) >= 1:
            # the rounding error spans whole units of the comparison: decided where it cannot matter, free otherwise
            E_lo, E_hi = _floor_frac(Fraction(elo)), _ceil_frac(Fraction(ehi))
            lo_v, hi_v = op(m + E_lo, 0), op(m + E_hi, 0)
            sure_true, sure_false = AND(lo_v, hi_v), AND(NOT(lo_v), NOT(hi_v))
            return OR(sure_true, AND(NOT(sure_false), sym_bool_internal("fcmp")))
        # m != 0 -> sign decided by m ; m == 0 -> by eps
        zero_ok = (self.zint and o.exact() and o.d == 1) or (o.zint and self.exact() and self.d == 1)
        at0 = op(0, 0)
        if zero_ok:
            return _icmp(m, 0, op)
        strict = _icmp(m, 0, op if op in (_lt, _gt) else (_lt if op is _le else _gt))
        if isinstance(m, int):
            if m != 0:
                return op(m, 0)
            nb = sym_bool_internal("fcmp")
            return nb
        nb = sym_bool_internal("fcmp")
        return OR(strict, AND(m == 0, nb))

    def __lt__(self, o): return self._cmp(o, _lt)
    def __le__(self, o): return self._cmp(o, _le)
    def __gt__(self, o): return self._cmp(o, _gt)
    def __ge__(self, o): return self._cmp(o, _ge)

    def __eq__(self, o):
        try:
            o = SFloat.of(o)
        except Unmodelled:
            return False
        L = self.d * o.d // _gcd(self.d, o.d)
        m = self.n * (L // self.d) - o.n * (L // o.d)
        if self.exact() and o.exact():
            return m == 0
        zero_ok = (self.zint and o.exact() and o.d == 1) or (o.zint and self.exact() and self.d == 1)
        if zero_ok:
            return m == 0
        raise Unmodelled("float equality under rounding error")

    def __ne__(self, o):
        return NOT(self.__eq__(o))

    def __bool__(self):
        r = self != 0
        return r if isinstance(r, bool) else bool(r)

    def __hash__(self):
        raise Unmodelled("hash of symbolic float")

    def __repr__(self):
        return f"SFloat<({self.n})/{self.d} +[{float(self.elo):.3g},{float(self.ehi):.3g}]>"

    def __format__(self, spec):
        import re as _re
        m = _re.fullmatch(r"\.(\d)f", spec)
        if not m:
            raise Unmodelled(f"format spec {spec!r} on a symbolic float")
        nd = int(m.group(1))
        if self < 0:
            raise Unmodelled("formatting a negative symbolic float")
        k = round(self * (10 ** nd))          # any admissible rounding
        if isinstance(k, int):
            return format(k / 10 ** nd, spec)
        ip, fr = divmod(k, 10 ** nd)
        return format(ip, "d") + "." + format(fr, f"0{nd}d")

    def as_integer_ratio(self):
        if self.exact():
            return self.n, self.d        # not reduced: callers must be scale-invariant
        raise Unmodelled("as_integer_ratio of inexact float")

    def is_integer(self):
        if self.exact():
            return (self.n % self.d) == 0 if self.d != 1 else True
        raise Unmodelled("is_integer of inexact float")


def _icmp(a, b, op):
    r = op(a, b)
    return r


def _gcd(a, b):
    while b:
        a, b = b, a % b
    return abs(a)


def _gcd_const(n, d):
    """gcd of all coefficients of n (SInt|int) and d."""
    g = d
    if isinstance(n, int):
        return _gcd(g, n) if n else d
    g = _gcd(g, n.c) if n.c else g
    for v, k in n.t.values():
        g = _gcd(g, k)
    return g


def _exact_div(n, g):
    if isinstance(n, int):
        return n // g
    return _norm(SInt({i: (v, k // g) for i, (v, k) in n.t.items()}, n.c // g))


def _floor_frac(f):
    return f.numerator // f.denominator


def _ceil_frac(f):
    return -((-f.numerator) // f.denominator)


def sym_bool_internal(prefix):
    e = eng()
    n = e.__dict__.setdefault("_fresh", 0)
    e._fresh = n + 1
    return SBool(z3.Bool(f"{prefix}!{e.stats['paths']}!{n}"))


# --------------------------------------------------------------------------- strings with digits
def eval_str(model, s):
    from . import shapes
    return shapes.eval_str(model, s)
