"""Symbolic digits inside ordinary `str` objects.

A digit position holds a private-use code point U+E000+i bound to an SInt atom d_i in [0,9];
everything else is a literal character.  The strings are ordinary `str`, so slicing, split,
padding and concatenation run natively.  Three shims make the digits symbolic end to end:
the regex shim (classes covering all of 0-9 are extended by the private-use range), the
`int` shim (digit string -> sum d_i 10^k, a linear form) and SInt.__format__ (decimal
expansion as fresh digit atoms).
"""
from __future__ import annotations

import re as _re
from re import _parser as _P, _compiler as _C
from re._constants import (IN, LITERAL, NOT_LITERAL, RANGE, CATEGORY, NEGATE, BRANCH, SUBPATTERN,
                           MAX_REPEAT, MIN_REPEAT, ASSERT, ASSERT_NOT, CATEGORY_DIGIT, CATEGORY_WORD,
                           CATEGORY_NOT_SPACE, CATEGORY_NOT_DIGIT, CATEGORY_NOT_WORD, CATEGORY_SPACE,
                           ANY, GROUPREF_EXISTS)
try:
    from re._constants import POSSESSIVE_REPEAT, ATOMIC_GROUP
except ImportError:  # pragma: no cover
    POSSESSIVE_REPEAT = ATOMIC_GROUP = None

import z3

from .symx import SInt, SBool, eng, Unmodelled, AND, OR, NOT, ite, sym_int, fresh_int, _norm

PUA0, PUA1 = 0xE000, 0xF8FF
_DIG = set(range(48, 58))


# ------------------------------------------------------------------------------ registry
def _reg():
    e = eng()
    r = e.__dict__.get("_pua")
    if r is None or r[0] != e.stats["paths"]:
        r = (e.stats["paths"], [], {})          # (path id, [SInt per code point], memo)
        e._pua = r
    return r


def digit_char(d):
    """register digit value d (SInt in [0,9] or int) -> 1-char str"""
    if isinstance(d, int):
        return chr(48 + d)
    _, lst, _ = _reg()
    if len(lst) > PUA1 - PUA0:
        raise Unmodelled("too many symbolic digits on one path")
    lst.append(d)
    return chr(PUA0 + len(lst) - 1)


def is_pua(ch):
    return PUA0 <= ord(ch) <= PUA1


def has_sym(s):
    return any(PUA0 <= ord(c) <= PUA1 for c in s)


def digit_value(ch):
    o = ord(ch)
    if 48 <= o <= 57:
        return o - 48
    if PUA0 <= o <= PUA1:
        return _reg()[1][o - PUA0]
    raise ValueError(f"not a digit: {ch!r}")


def sym_digits(name, n):
    """n fresh symbolic input digits as a string"""
    return "".join(digit_char(sym_int(f"{name}{i}", 0, 9)) for i in range(n))


def digits_value(s):
    v = 0
    for ch in s:
        v = v * 10 + digit_value(ch)
    return v


def int_of_str(s, base=10):
    """int() of a string that may hold symbolic digits"""
    t = s.strip()
    if not has_sym(t):
        return int(s, base)
    if base != 10:
        raise Unmodelled("int(str, base) with symbolic digits")
    memo = _reg()[2]
    if t in memo:
        return memo[t]
    sign = 1
    body = t
    if body[:1] in "+-":
        sign = -1 if body[0] == "-" else 1
        body = body[1:]
    body = body.replace("_", "")
    if not body or any(not (c.isdigit() or is_pua(c)) for c in body):
        raise ValueError(f"invalid literal for int() with base 10: {s!r}")
    return sign * digits_value(body)


def eval_str(model, s):
    if not isinstance(s, str) or not has_sym(s):
        return s
    lst = _reg()[1]
    out = []
    for ch in s:
        o = ord(ch)
        if PUA0 <= o <= PUA1:
            d = lst[o - PUA0]
            v = d if isinstance(d, int) else model.eval(d.z(), model_completion=True).as_long()
            out.append(chr(48 + v))
        else:
            out.append(ch)
    return "".join(out)


# ------------------------------------------------------------------------------ formatting
_SPEC = _re.compile(r"^(?P<fill>0?)(?P<width>\d*)(?P<typ>d?)$")


def _ndigits(v):
    n = 1
    while v >= 10:
        v //= 10
        n += 1
    return n


def format_sint(x, spec):
    if isinstance(x, int):
        return format(x, spec)
    m = _SPEC.match(spec)
    if not m:
        raise Unmodelled(f"format spec {spec!r} on a symbolic int")
    width = int(m.group("width") or 0)
    zero = bool(m.group("fill"))
    neg = False
    if x < 0:                     # forks when the sign is not fixed by the bounds
        neg = True
        x = -x
    if isinstance(x, int):
        return format(-x if neg else x, spec)
    lo, hi = x.bounds()
    if hi is None:
        raise Unmodelled("formatting an unbounded symbolic int")
    if hi - lo <= 12:
        # small domains (months, weekdays, hours of a table...) are forked to concrete text, so that code comparing
        # rendered strings natively (e.g. dt.format("%Y-%M") == check) sees real digits
        v = x.concretize()
        return format(-v if neg else v, spec)
    nmin, nmax = _ndigits(max(lo, 0)), _ndigits(hi)
    w = width - (1 if neg else 0)
    if zero and w >= nmax:
        n = w                     # zero padding fixes the number of digit positions
    else:
        n = nmax
        for k in range(nmin, nmax):
            if x < 10 ** k:       # fork on the number of digits
                n = k
                break
    ds = [fresh_int("dg", 0, 9) for _ in range(n)]
    val = 0
    for d in ds:
        val = val * 10 + d
    eng().assume(val == x)
    body = "".join(digit_char(d) for d in ds)
    _reg()[2][body] = x
    s = ("-" if neg else "") + body
    if len(s) < width:
        pad = width - len(s)
        if zero:
            body = "0" * pad + body
            _reg()[2][body] = x
            s = ("-" if neg else "") + body
        else:
            s = " " * pad + s
    return s


# ------------------------------------------------------------------------------ regex shim
def _set_covers(items):
    cov = set()
    neg = False
    for op, av in items:
        if op is NEGATE:
            neg = True
        elif op is LITERAL:
            if av in _DIG:
                cov.add(av)
        elif op is RANGE:
            lo, hi = av
            cov |= {c for c in _DIG if lo <= c <= hi}
        elif op is CATEGORY:
            if av in (CATEGORY_DIGIT, CATEGORY_WORD, CATEGORY_NOT_SPACE):
                cov |= _DIG
    return cov, neg


class NotDigitAgnostic(Exception):
    pass


def _xform(sp):
    data = sp.data if hasattr(sp, "data") else sp
    for i, (op, av) in enumerate(data):
        if op is IN:
            cov, neg = _set_covers(av)
            if cov and cov != _DIG:
                raise NotDigitAgnostic("character class covers only some digits")
            if cov == _DIG:
                av = list(av)                       # \d's item list is a shared singleton
                av.append((RANGE, (PUA0, PUA1)))
                data[i] = (op, av)
        elif op is LITERAL or op is NOT_LITERAL:
            if av in _DIG:
                raise NotDigitAgnostic("literal digit in pattern")
        elif op is BRANCH:
            for b in av[1]:
                _xform(b)
        elif op is SUBPATTERN:
            _xform(av[3])
        elif op in (MAX_REPEAT, MIN_REPEAT) or (POSSESSIVE_REPEAT is not None and op is POSSESSIVE_REPEAT):
            _xform(av[2])
        elif op in (ASSERT, ASSERT_NOT):
            _xform(av[1])
        elif ATOMIC_GROUP is not None and op is ATOMIC_GROUP:
            _xform(av)
        elif op is GROUPREF_EXISTS:
            _xform(av[1])
            if av[2] is not None:
                _xform(av[2])


_cache = {}


def compile_sym(pattern, flags=0):
    if isinstance(pattern, _re.Pattern):
        flags = pattern.flags & ~_re.UNICODE if False else pattern.flags
        pattern = pattern.pattern
        flags &= (_re.I | _re.M | _re.S | _re.X | _re.A)
    key = (pattern, flags)
    p = _cache.get(key)
    if p is None:
        tree = _P.parse(pattern, flags)
        _xform(tree)
        p = _C.compile(tree, flags)
        _cache[key] = p
    return p


class ReShim:
    """drop-in for the `re` module inside re-hosted pendulum modules"""

    def __init__(self):
        for k in dir(_re):
            if not k.startswith("__") and not hasattr(self, k):
                setattr(self, k, getattr(_re, k))

    def compile(self, pattern, flags=0):
        return compile_sym(pattern, flags)

    def match(self, pattern, string, flags=0):
        return compile_sym(pattern, flags).match(string)

    def fullmatch(self, pattern, string, flags=0):
        return compile_sym(pattern, flags).fullmatch(string)

    def search(self, pattern, string, flags=0):
        return compile_sym(pattern, flags).search(string)

    def sub(self, pattern, repl, string, count=0, flags=0):
        return compile_sym(pattern, flags).sub(repl, string, count)

    def split(self, pattern, string, maxsplit=0, flags=0):
        return compile_sym(pattern, flags).split(string, maxsplit)

    def findall(self, pattern, string, flags=0):
        return compile_sym(pattern, flags).findall(string)

    def finditer(self, pattern, string, flags=0):
        return compile_sym(pattern, flags).finditer(string)

    def escape(self, s):
        return _re.escape(s)
