"""Check driver:  python -m vf.runner <PROPERTY> --tier quick|thorough [--replay FILE] [--case NAME]

exit 0  property held on everything explored (known findings are printed, not alarms)
exit 1  VIOLATION property=<id> replay=<path>   (a solver model that reproduces on the real library)
exit 2  inconclusive (unknown / cap / unmodelled operation on a feasible path / timeout)
exit 3  harness error (model does not reproduce, model/impl mismatch, vacuous witness)
"""
from __future__ import annotations

import argparse
import hashlib
import importlib
import inspect
import json
import multiprocessing as mp
import os
import random
import subprocess
import sys
import time
import traceback

ROOT = os.path.dirname(os.path.dirname(os.path.abspath(__file__)))
EVID = os.path.join(ROOT, "evidence")
REPLAYS = os.path.join(ROOT, "replays")
PY = sys.executable


def load_prop(pid):
    return importlib.import_module(f"props.{pid.lower()}")


# ------------------------------------------------------------------------------ worker (sym mode)
def run_case(args):
    pid, tier, idx, seed = args
    t0 = time.time()
    out = dict(idx=idx, ok=False)
    try:
        sys.setrecursionlimit(10000)
        from . import rehost, symx, ctx as ctxm
        host = rehost.load()
        prop = load_prop(pid)
        case = prop.cases(tier)[idx]
        out["name"] = case["name"]
        c = ctxm.SymCtx(host)
        limits = case.get("limits", {})
        eng = symx.Engine(max_decisions=limits.get("max_decisions", 800),
                          claim_timeout_ms=limits.get("claim_timeout_ms", 60000 if tier == "quick" else 300000),
                          branch_timeout_ms=limits.get("branch_timeout_ms", 2000),
                          max_paths=limits.get("max_paths", 200000),
                          wall_budget_s=limits.get("wall_budget_s"))
        fn, params = case["fn"], case.get("params", {})
        plist = case.get("params_list")
        recs = []
        for sub_i, sub in enumerate(plist if plist is not None else [params]):
            def body(sub=sub):
                rehost.reset_state()
                c.want_model()
                try:
                    fn(c, **sub)
                except symx.Unmodelled:
                    raise
                except Exception as ex:      # noqa: BLE001
                    # an exception the harness did not anticipate is a failed claim on this path, to be replayed
                    c.observe("unexpected exception", type(ex).__name__)
                    c.claim("no unexpected exception", False)

            sub_recs = eng.run(body)
            if plist is not None:
                for r in sub_recs:
                    r.sub = sub_i
            recs.extend(sub_recs)
            if eng.stats.get("truncated"):
                break
        claims = {}
        sats, unknowns, bad_paths = [], [], []
        reached = set()
        val = []
        witnesses = []
        statuses = {}
        for r in recs:
            statuses[r.status] = statuses.get(r.status, 0) + 1
            for lab, res, model in r.claims:
                d = claims.setdefault(lab, dict(unsat=0, sat=0, unknown=0))
                d[res] += 1
                if res == "sat":
                    if plist is not None:
                        model = dict(model or {}, __sub=getattr(r, "sub", 0))
                    sats.append(dict(label=lab, inputs=model, path=r.n))
                elif res == "unknown":
                    unknowns.append(dict(label=lab, path=r.n))
            reached.update(r.reached)
            if r.status in ("depth", "unmodelled") and r.feasible != "unsat":
                bad_paths.append(dict(path=r.n, status=r.status, detail=r.detail, feasible=r.feasible,
                                      inputs=r.model, sub=getattr(r, "sub", None)))
            if r.status == "ok" and r.model is not None:
                mdl = r.model if plist is None else dict(r.model, __sub=getattr(r, "sub", 0))
                val.append(dict(inputs=mdl, observed=r.observed, path=r.n))
            for lab, vals in r.reach_models:
                if len(witnesses) < 60:
                    if plist is not None:
                        vals = dict(vals, __sub=getattr(r, "sub", 0))
                    witnesses.append(dict(label=lab, inputs=vals))
        out.update(ok=True, stats=eng.stats, claims=claims, sats=sats, unknowns=unknowns,
                   bad_paths=bad_paths, reached=sorted(reached), statuses=statuses,
                   validate=val, witnesses=witnesses, known_used=sorted(c.known_used), wall_s=time.time() - t0,
                   input_bounds={k: (list(v) if isinstance(v, tuple) else v) for k, v in eng.input_bounds.items()})
    except BaseException as ex:      # noqa: BLE001 -- report, never hide
        out["error"] = "".join(traceback.format_exception(type(ex), ex, ex.__traceback__))[-4000:]
        out["wall_s"] = time.time() - t0
    return out


# ------------------------------------------------------------------------------ real mode
def real_main():
    """stdin: {"pid":..., "tier":..., "jobs":[{"idx":i,"inputs":{...}}]} -> stdout JSON results"""
    req = json.load(sys.stdin)
    sys.path.insert(0, os.environ.get("VF_SRC", "/repo/src"))
    os.environ.setdefault("PENDULUM_EXTENSIONS", "0")
    import pendulum
    from . import ctx as ctxm
    from .symx import PathAbort
    prop = load_prop(req["pid"])
    cases = prop.cases(req["tier"])
    res = []
    for job in req["jobs"]:
        case = cases[job["idx"]]
        c = ctxm.RealCtx(job["inputs"])
        if job.get("witness"):
            c.known = {}          # a known-finding witness is replayed with its region *not* excluded: it must still fail
        r = dict(idx=job["idx"])
        pendulum.set_locale("en")
        pendulum.week_starts_at(pendulum.MONDAY)
        pendulum.week_ends_at(pendulum.SUNDAY)
        try:
            if case.get("params_list") is not None:
                case["fn"](c, **case["params_list"][job["inputs"].get("__sub", 0)])
            else:
                case["fn"](c, **case.get("params", {}))
            r["status"] = "ok"
        except PathAbort:
            r["status"] = "abort"
        except Exception as ex:      # noqa: BLE001
            r["status"] = "ok"
            r["error"] = "".join(traceback.format_exception(type(ex), ex, ex.__traceback__))[-3000:]
            c.observe("unexpected exception", type(ex).__name__)
            c.claim("no unexpected exception", False)
        r["claims"] = c.claims
        r["observed"] = c.observed
        res.append(r)
    json.dump(dict(results=res, pendulum=pendulum.__file__), sys.stdout)


def run_real(pid, tier, jobs, timeout=1800, ext="0"):
    if not jobs:
        return []
    p = subprocess.run([PY, "-c", "from vf.runner import real_main; real_main()"],
                       input=json.dumps(dict(pid=pid, tier=tier, jobs=jobs)), capture_output=True,
                       text=True, cwd=ROOT, timeout=timeout,
                       env=dict(os.environ, PENDULUM_EXTENSIONS=ext))
    if p.returncode != 0:
        raise RuntimeError("real-mode runner failed:\n" + p.stderr[-4000:])
    return json.loads(p.stdout)["results"]


# ------------------------------------------------------------------------------ evidence helpers
def function_hashes(host, names):
    out = []
    for spec in names:
        modname, _, qual = spec.partition(":")
        try:
            mod = sys.modules.get(modname) or importlib.import_module(modname)
            obj = mod
            for part in qual.split("."):
                if part:
                    obj = getattr(obj, part)
            if isinstance(obj, property):
                obj = obj.fget
            obj = getattr(obj, "__func__", obj)
            src = inspect.getsource(obj)
            out.append(dict(function=spec, file=inspect.getsourcefile(obj),
                            sha256=hashlib.sha256(src.encode()).hexdigest()[:16]))
        except Exception as ex:      # noqa: BLE001
            out.append(dict(function=spec, error=str(ex)))
    return out


def hash_worker(names):
    from . import rehost
    host = rehost.load()
    return function_hashes(host, names)


# ------------------------------------------------------------------------------ main
def main(argv=None):
    ap = argparse.ArgumentParser()
    ap.add_argument("pid")
    ap.add_argument("--tier", default=os.environ.get("VERIF_TIER", "quick"))
    ap.add_argument("--replay")
    ap.add_argument("--case")
    ap.add_argument("--jobs", type=int, default=int(os.environ.get("VERIF_JOBS", "16")))
    ap.add_argument("--no-evidence", action="store_true")
    a = ap.parse_args(argv)
    pid = a.pid.upper()
    seed = int(os.environ.get("VERIF_SEED", "0"))
    sys.path.insert(0, ROOT)
    prop = load_prop(pid)
    if a.replay:
        return do_replay(pid, a.replay)
    t0 = time.time()
    cases = prop.cases(a.tier)
    idxs = [i for i, c in enumerate(cases) if not a.case or c["name"] == a.case or a.case in c["name"]]
    ctx = mp.get_context("spawn")
    results = []
    budget = getattr(prop, "WALL_BUDGET", {}).get(a.tier, 3000 if a.tier == "quick" else 14000)
    with ctx.Pool(min(a.jobs, max(1, len(idxs))), maxtasksperchild=1) as pool:
        asyncs = [(i, pool.apply_async(run_case, ((pid, a.tier, i, seed),))) for i in idxs]
        hashes_async = pool.apply_async(hash_worker, (getattr(prop, "FUNCTIONS", []),))
        for i, ar in asyncs:
            left = budget - (time.time() - t0)
            try:
                results.append(ar.get(timeout=max(1, left)))
            except mp.TimeoutError:
                results.append(dict(idx=i, ok=False, name=cases[i]["name"], error="timeout", timeout=True))
        try:
            hashes = hashes_async.get(timeout=120)
        except Exception as ex:      # noqa: BLE001
            hashes = [dict(error=str(ex))]
        pool.terminate()

    problems, inconclusive = [], []
    for r in results:
        if not r.get("ok"):
            (inconclusive if r.get("timeout") else problems).append(
                f"case {r.get('name', r['idx'])}: {r.get('error')}")
            continue
        if r["stats"].get("truncated"):
            inconclusive.append(f"case {r['name']}: exploration truncated (path/wall cap)")
        for b in r["bad_paths"]:
            inconclusive.append(f"case {r['name']}: path {b['path']} {b['status']} {b['detail'] or ''} "
                                f"(feasible={b['feasible']}) inputs={b['inputs']}")
        for u in r["unknowns"]:
            inconclusive.append(f"case {r['name']}: claim {u['label']!r} unknown on path {u['path']}")

    # -- validation of the models against the real implementation (one concrete trace per path)
    rnd = random.Random(seed)
    vcap = getattr(prop, "VALIDATE_CAP", {}).get(a.tier, 150 if a.tier == "quick" else 600)
    vjobs, vexp = [], []
    for r in results:
        if not r.get("ok"):
            continue
        v = r["validate"]
        if len(v) > vcap:
            v = rnd.sample(v, vcap)
        for item in v:
            vjobs.append(dict(idx=r["idx"], inputs=item["inputs"]))
            vexp.append((r["name"], item))
    validated = 0
    mismatches = []
    val_violations = []
    if vjobs and not problems:
        try:
            vres = run_real(pid, a.tier, vjobs)
        except Exception as ex:      # noqa: BLE001
            problems.append(f"validation run failed: {ex}")
            vres = []
        for (cname, item), rr, vj in zip(vexp, vres, vjobs):
            if rr["status"] == "error":
                mismatches.append(dict(case=cname, inputs=item["inputs"], error=rr["error"]))
                continue
            if rr["status"] == "abort":
                mismatches.append(dict(case=cname, inputs=item["inputs"],
                                       error="real run rejected inputs the symbolic path accepted"))
                continue
            vfailed = [lab for lab, ok in rr.get("claims", []) if not ok]
            if vfailed:
                # a claim that fails concretely on the real library for a solver-chosen input is a violation even if the
                # symbolic run (e.g. under the float error model) could not refute it
                val_violations.append(dict(property=pid, tier=a.tier, case=cname, case_idx=vj["idx"], inputs=item["inputs"],
                                           solver_claim="path model (concrete cross-run)", failed_claims=vfailed,
                                           observed=rr.get("observed")))
                continue
            if rr["observed"] != item["observed"]:
                mismatches.append(dict(case=cname, inputs=item["inputs"], sym=item["observed"],
                                       real=rr["observed"]))
                continue
            validated += 1

    # -- concrete probes: random assignments of the declared inputs (seeded by VERIF_SEED), run on the real library only.
    #    Not a deciding step -- "held" is the solver's verdict -- but a claim that fails here is a reproduced violation;
    #    this is what catches sparse float defects that the error model can neither prove nor pin to a failing input.
    nprobe = getattr(prop, "PROBES", {}).get(a.tier, 60 if a.tier == "quick" else 400)
    pjobs, pmeta = [], []
    for r in results:
        if r.get("ok") and r.get("input_bounds") and cases[r["idx"]].get("params_list") is None:
            b = r["input_bounds"]
            for k in range(nprobe):
                inp = {}
                for name, bd in b.items():
                    if bd == "bool":
                        inp[name] = rnd.random() < 0.5
                    else:
                        lo, hi = bd
                        inp[name] = rnd.choice((lo, hi, rnd.randint(lo, hi), rnd.randint(lo, hi), rnd.randint(lo, hi)))
                pjobs.append(dict(idx=r["idx"], inputs=inp))
                pmeta.append(r["name"])
    probes_run = 0
    if pjobs and not problems:
        try:
            pres = run_real(pid, a.tier, pjobs)
        except Exception as ex:      # noqa: BLE001
            problems.append(f"probe run failed: {ex}")
            pres = []
        for cname, job, rr in zip(pmeta, pjobs, pres):
            if rr["status"] != "ok":
                continue                      # outside the harness's assumptions
            probes_run += 1
            pf = [lab for lab, ok in rr.get("claims", []) if not ok]
            if pf:
                val_violations.append(dict(property=pid, tier=a.tier, case=cname, case_idx=job["idx"], inputs=job["inputs"],
                                           solver_claim="concrete probe", failed_claims=pf, observed=rr.get("observed")))

    # -- boundary witnesses (models of the reachability conditions) and the compiled backend:
    #    every claim must also hold concretely on these solver-chosen inputs, with both helper/parser backends
    violations = list(val_violations)
    wjobs, wmeta = [], []
    for r in results:
        if r.get("ok"):
            for w in r.get("witnesses", []):
                wjobs.append(dict(idx=r["idx"], inputs=w["inputs"]))
                wmeta.append((r["name"], r["idx"], w))
    rust_checked = 0
    backends = [("0", "python")] + ([("1", "compiled")] if getattr(prop, "RUST_CROSSCHECK", False) else [])
    for ext, bname in backends:
        jobs = list(wjobs) + ([j for j in vjobs] if ext == "1" else [])
        meta = list(wmeta) + ([(n, None, dict(label="path model", inputs=it["inputs"])) for (n, it) in vexp] if ext == "1" else [])
        if not jobs or problems:
            continue
        try:
            wres = run_real(pid, a.tier, jobs, ext=ext)
        except Exception as ex:      # noqa: BLE001
            problems.append(f"witness run ({bname}) failed: {ex}")
            continue
        for (cname, cidx, w), job, rr in zip(meta, jobs, wres):
            failed = [lab for lab, ok in rr.get("claims", []) if not ok]
            if ext == "1":
                rust_checked += 1
            if rr["status"] == "ok" and failed:
                violations.append(dict(property=pid, tier=a.tier, case=cname, case_idx=job["idx"], inputs=w["inputs"],
                                       solver_claim=f"witness {w['label']}", failed_claims=failed, backend=bname,
                                       observed=rr.get("observed")))
            elif rr["status"] == "error":
                if ext == "1":
                    violations.append(dict(property=pid, tier=a.tier, case=cname, case_idx=job["idx"], inputs=w["inputs"],
                                           solver_claim=f"witness {w['label']}", failed_claims=["unexpected exception"],
                                           backend=bname, observed=rr.get("error", "")[-600:]))
                else:
                    mismatches.append(dict(case=cname, inputs=w["inputs"], error=rr.get("error")))

    # -- counterexamples: replay on the real library before reporting
    sat_jobs, sat_meta = [], []
    for r in results:
        if r.get("ok"):
            seen = set()
            for s in r["sats"]:
                if s["label"] in seen and len(seen) > 0 and sum(1 for m in sat_meta if m[0] == r["name"] and m[1]["label"] == s["label"]) >= 5:
                    continue
                seen.add(s["label"])
                sat_jobs.append(dict(idx=r["idx"], inputs=s["inputs"]))
                sat_meta.append((r["name"], s, r["idx"]))
    unreproduced = []
    if sat_jobs:
        try:
            sres = run_real(pid, a.tier, sat_jobs)
        except Exception as ex:      # noqa: BLE001
            problems.append(f"replay run failed: {ex}")
            sres = []
        for (cname, s, idx), rr in zip(sat_meta, sres):
            failed = [lab for lab, ok in rr.get("claims", []) if not ok]
            if rr["status"] == "ok" and failed:
                violations.append(dict(property=pid, tier=a.tier, case=cname, case_idx=idx, inputs=s["inputs"],
                                       solver_claim=s["label"], failed_claims=failed,
                                       observed=rr.get("observed")))
            else:
                unreproduced.append(dict(case=cname, label=s["label"], inputs=s["inputs"],
                                         real_status=rr["status"], real_error=rr.get("error"),
                                         real_claims=rr.get("claims")))

    # -- reachability witnesses
    reached = set()
    for r in results:
        if r.get("ok"):
            reached.update(r["reached"])
    missing = [w for w in getattr(prop, "REACH", []) if w not in reached] if not a.case else []

    # -- known findings
    known_lines = []
    kf = json.load(open(os.path.join(ROOT, "known_findings.json"))) if os.path.exists(
        os.path.join(ROOT, "known_findings.json")) else dict(findings=[])
    kjobs, kmeta = [], []
    for e in kf.get("findings", []):
        if e.get("property") == pid and e.get("status") == "known" and e.get("witness"):
            w = e["witness"]
            names = [c["name"] for c in cases]
            if w["case"] in names:
                kjobs.append(dict(idx=names.index(w["case"]), inputs=w["inputs"], witness=True))
                kmeta.append(e)
    if kjobs:
        try:
            kres = run_real(pid, a.tier, kjobs)
            for e, rr in zip(kmeta, kres):
                failed = [lab for lab, ok in rr.get("claims", []) if not ok]
                if rr["status"] == "ok" and failed:
                    known_lines.append(f"KNOWN-FINDING: property={pid} {e['id']}: {e['what']}")
                else:
                    known_lines.append(f"NOTE: known finding {e['id']} no longer reproduces on its recorded witness "
                                       f"(status={rr['status']}); the property is still checked in full outside and inside its region")
        except Exception as ex:      # noqa: BLE001
            problems.append(f"known-finding witness run failed: {ex}")

    wall = time.time() - t0
    # ---------------- evidence
    tot = dict(paths=0, decisions=0, branch_queries=0, claim_queries=0, solver_s=0.0, claims_unsat=0,
               claims_sat=0, claims_unknown=0, claims_trivial=0, unknown_branches=0, aborted=0)
    per_case = []
    claim_tot = {}
    for r in results:
        if r.get("ok"):
            for k in tot:
                tot[k] += r["stats"].get(k, 0)
            per_case.append(dict(case=r["name"], paths=r["stats"]["paths"], decisions=r["stats"]["decisions"],
                                 claims=r["claims"], statuses=r["statuses"], wall_s=round(r["wall_s"], 2),
                                 solver_s=round(r["stats"]["solver_s"], 2)))
            for lab, d in r["claims"].items():
                t = claim_tot.setdefault(lab, dict(unsat=0, sat=0, unknown=0))
                for k in d:
                    t[k] += d[k]
    samples = []
    for (cname, item) in vexp[:6]:
        samples.append(dict(case=cname, path_model=item["inputs"], observed=item["observed"]))
    if not samples:
        samples = [dict(case=c["name"], bounds=c.get("bounds", "")) for c in cases[:3]]
    ev = dict(
        property_id=pid, tier=a.tier, seed=seed, level="model_checking",
        coverage=dict(
            states=max(1, tot["paths"]), transitions=max(1, tot["decisions"]),
            traces_validated_against_impl=validated, samples=samples,
            explanation=("states = program paths explored by re-execution DFS of the real source on symbolic "
                         "values; transitions = symbolic branch decisions taken; every path's claims were "
                         "discharged by z3 as PC && !claim (unsat = holds for all inputs of that path)."),
            engine="symx (re-execution symbolic execution of /repo/src on model stdlib) + z3 " + _z3ver(),
            functions_encoded=hashes,
            cases=per_case,
            bounds=[dict(case=c["name"], bounds=c.get("bounds", "")) for c in cases],
            outside_bounds=getattr(prop, "OUTSIDE", []),
            queries=dict(branch=tot["branch_queries"], claims=tot["claim_queries"],
                         claims_unsat=tot["claims_unsat"], claims_sat=tot["claims_sat"],
                         claims_unknown=tot["claims_unknown"], claims_folded_syntactically=tot["claims_trivial"],
                         unknown_branches_treated_feasible=tot["unknown_branches"]),
            claims=claim_tot,
            solver_s=round(tot["solver_s"], 2),
            paths_outside_assumptions=tot["aborted"],
            reachability_witnesses=sorted(reached), witnesses_required=getattr(prop, "REACH", []),
            model_impl_mismatches=len(mismatches),
            boundary_witnesses_replayed=len(wjobs),
            concrete_probes_on_real_library=probes_run,
            rust_crosscheck=dict(enabled=bool(getattr(prop, "RUST_CROSSCHECK", False)), concrete_runs_on_compiled_backend=rust_checked,
                                 note="solver-chosen inputs (one per explored path plus the reachability witnesses) re-run on the "
                                      "compiled backend; concrete cross-run, not the deciding step"),
            known_findings=[l for l in known_lines],
            inconclusive=inconclusive[:20], harness_problems=problems[:20],
            exhaustive=False,
        ),
        assumptions=getattr(prop, "ASSUMPTIONS", []),
        wall_s=round(wall, 2),
        violations=len(violations),
    )
    if not a.no_evidence and not a.case:
        os.makedirs(EVID, exist_ok=True)
        tmp = os.path.join(EVID, f"{pid}.json.tmp")
        with open(tmp, "w") as f:
            json.dump(ev, f, indent=1, default=str)
        os.replace(tmp, os.path.join(EVID, f"{pid}.json"))

    # ---------------- verdict
    print(f"[{pid}/{a.tier}] cases={len(idxs)} paths={tot['paths']} decisions={tot['decisions']} "
          f"claims: unsat={tot['claims_unsat']} folded={tot['claims_trivial']} sat={tot['claims_sat']} "
          f"unknown={tot['claims_unknown']} solver={tot['solver_s']:.1f}s validated={validated} wall={wall:.1f}s")
    for l in known_lines:
        print(l)
    if violations:
        os.makedirs(REPLAYS, exist_ok=True)
        shown = set()
        for n, v in enumerate(violations):
            key = (v["case"], tuple(v["failed_claims"]))
            if key in shown:
                continue
            shown.add(key)
            path = os.path.join(REPLAYS, f"{pid}-{len(shown)}.json")
            with open(path, "w") as f:
                json.dump(v, f, indent=1)
            print(f"VIOLATION property={pid} replay={path}")
            print(f"  case={v['case']} failed={v['failed_claims']} inputs={v['inputs']}")
        return 1
    if unreproduced or mismatches or problems or missing:
        for u in unreproduced[:5]:
            print("HARNESS-ERROR: solver model does not reproduce on the real library:", json.dumps(u)[:1500])
        for m in mismatches[:5]:
            print("HARNESS-ERROR: model/implementation mismatch:", json.dumps(m)[:1500])
        for p in problems[:5]:
            print("HARNESS-ERROR:", p)
        for w in missing:
            print("HARNESS-ERROR: reachability witness never reached:", w)
        return 3
    if inconclusive:
        for i in inconclusive[:10]:
            print("INCONCLUSIVE:", i[:1500])
        return 2
    print(f"[{pid}/{a.tier}] held on everything explored")
    return 0


def do_replay(pid, path):
    v = json.load(open(path))
    res = run_real(pid, v.get("tier", "quick"), [dict(idx=v["case_idx"], inputs=v["inputs"])],
                   ext="1" if v.get("backend") == "compiled" else "0")
    rr = res[0]
    failed = [lab for lab, ok in rr.get("claims", []) if not ok]
    print(json.dumps(dict(status=rr["status"], failed_claims=failed, observed=rr.get("observed"),
                          error=rr.get("error")), indent=1))
    if rr["status"] == "ok" and failed:
        print(f"VIOLATION property={pid} replay={path}")
        return 1
    return 0


def _z3ver():
    try:
        import z3
        return z3.get_version_string()
    except Exception:      # noqa: BLE001
        return "?"


if __name__ == "__main__":
    sys.exit(main())
