"""Synthetic TZif (RFC 8536, version 2) files for replaying a symbolic zone on the real zoneinfo."""
from __future__ import annotations

import struct


def _block(trans, idx, types, abbrs, v64):
    """types: list of (utoff, isdst, abbr_index)"""
    timecnt, typecnt, charcnt = len(trans), len(types), len(abbrs)
    hdr = b"TZif" + b"2" + b"\0" * 15 + struct.pack(">6l", 0, 0, 0, timecnt, typecnt, charcnt)
    body = b"".join(struct.pack(">q" if v64 else ">l", t) for t in trans)
    body += bytes(idx)
    for off, dst, ai in types:
        body += struct.pack(">lbB", off, dst, ai)
    body += abbrs
    return hdr + body


def make(trans_unix, offsets, names=None):
    """One zone: offsets[0] before trans_unix[0], offsets[i+1] from trans_unix[i] on."""
    assert len(offsets) == len(trans_unix) + 1
    names = names or [f"V{i}" for i in range(len(offsets))]
    abbrs = b""
    types = []
    for off, nm in zip(offsets, names):
        types.append((off, 0, len(abbrs)))
        abbrs += nm.encode() + b"\0"
    v1 = _block([], [], [(0, 0, 0)], b"UTC\0", False)
    v2 = _block(list(trans_unix), list(range(1, len(offsets))), types, abbrs, True)
    return v1 + v2 + b"\n\n"
